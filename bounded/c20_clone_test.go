package jsonschema

// Bounded stand-in for property C20 (CloneSchemas): NOT a proof. CloneSchemas walks the Schema struct by
// reflection, which the deductive engine does not model, so this harness enumerates, up to a stated bound,
// Schema trees that populate every subschema-bearing field (found here by reflection on the Schema type,
// independently of the package's own field table) and checks independence and equality of the clone.
//
// Bound: nesting depth <= 3; per tree either exactly one subschema-bearing field populated (in each of the
// shapes its type allows: pointer; slice of length 0 (with and without spare capacity), 1, 2, always with a
// spare slot; map with 0, 1, 2 entries) or all of them. Independence is checked for the Schema objects and
// for the containers themselves (append / insert on one side must not show on the other).

import (
	"bytes"
	"encoding/json"
	"fmt"
	"os"
	"reflect"
	"regexp"
	"testing"
)

type c20field struct {
	idx  int
	name string
	kind string // ptr, slice, map
}

func c20fields() []c20field {
	var out []c20field
	st := reflect.TypeFor[Schema]()
	pt := reflect.TypeFor[*Schema]()
	for i := 0; i < st.NumField(); i++ {
		f := st.Field(i)
		switch {
		case f.Type == pt:
			out = append(out, c20field{i, f.Name, "ptr"})
		case f.Type.Kind() == reflect.Slice && f.Type.Elem() == pt:
			out = append(out, c20field{i, f.Name, "slice"})
		case f.Type.Kind() == reflect.Map && f.Type.Elem() == pt:
			out = append(out, c20field{i, f.Name, "map"})
		}
	}
	return out
}

var c20digits = regexp.MustCompile(`[0-9]+`)

var c20counter int

func c20leaf() *Schema {
	c20counter++
	return &Schema{Title: fmt.Sprintf("n%d", c20counter), Examples: []any{c20counter}, Extra: map[string]any{"x-k": c20counter}}
}

// exclusive pairs that basicChecks rejects when both are set
var c20exclusive = map[string]string{"ItemsArray": "Items", "Definitions": "Defs"}

func c20set(s *Schema, f c20field, shape int, child func() *Schema) {
	v := reflect.ValueOf(s).Elem().Field(f.idx)
	switch f.kind {
	case "ptr":
		v.Set(reflect.ValueOf(child()))
	case "slice":
		if shape < 0 { // empty slice with spare capacity
			v.Set(reflect.MakeSlice(v.Type(), 0, 2))
			return
		}
		sl := reflect.MakeSlice(v.Type(), 0, shape+1) // always one spare slot
		for i := 0; i < shape; i++ {
			sl = reflect.Append(sl, reflect.ValueOf(child()))
		}
		v.Set(sl)
	case "map":
		m := reflect.MakeMap(v.Type())
		for i := 0; i < shape; i++ {
			m.SetMapIndex(reflect.ValueOf(fmt.Sprintf("k%d/~", i)), reflect.ValueOf(child()))
		}
		v.Set(m)
	}
}

func c20all(depth int, skip map[string]bool) *Schema {
	s := c20leaf()
	if depth == 0 {
		return s
	}
	for _, f := range c20fields() {
		if skip[f.name] {
			continue
		}
		c20set(s, f, 2, func() *Schema { return c20all(depth-1, skip) })
	}
	return s
}

func c20pointers(s *Schema, into map[*Schema]bool) {
	if s == nil || into[s] {
		return
	}
	into[s] = true
	v := reflect.ValueOf(s).Elem()
	for _, f := range c20fields() {
		fv := v.Field(f.idx)
		switch f.kind {
		case "ptr":
			c20pointers(fv.Interface().(*Schema), into)
		case "slice":
			for i := 0; i < fv.Len(); i++ {
				c20pointers(fv.Index(i).Interface().(*Schema), into)
			}
		case "map":
			for _, k := range fv.MapKeys() {
				c20pointers(fv.MapIndex(k).Interface().(*Schema), into)
			}
		}
	}
}

type c20result struct {
	Evaluations int      `json:"evaluations"`
	Distinct    int      `json:"distinct_nontrivial"`
	Fields      []string `json:"fields"`
	Failures    []string `json:"failures"`
	Samples     []string `json:"samples"`
}

func TestBoundedC20(t *testing.T) {
	res := &c20result{}
	seen := map[string]bool{}
	check := func(label string, orig *Schema) {
		res.Evaluations++
		before, err := json.Marshal(orig)
		if err != nil {
			res.Failures = append(res.Failures, label+": marshal of the original fails: "+err.Error())
			return
		}
		// distinct by structure: the generated titles / numbers are blanked out
		if sig := c20digits.ReplaceAllString(string(before), "N"); !seen[sig] {
			seen[sig] = true
			res.Distinct++
		}
		if len(res.Samples) < 4 && len(before) < 400 {
			res.Samples = append(res.Samples, label+": "+string(before))
		}
		clone := orig.CloneSchemas()
		after, err := json.Marshal(clone)
		if err != nil || !bytes.Equal(before, after) {
			res.Failures = append(res.Failures, fmt.Sprintf("%s: clone marshals differently (err=%v)", label, err))
		}
		po, pc := map[*Schema]bool{}, map[*Schema]bool{}
		c20pointers(orig, po)
		c20pointers(clone, pc)
		for p := range pc {
			if po[p] {
				res.Failures = append(res.Failures, fmt.Sprintf("%s: clone shares Schema object %q with the original", label, p.Title))
				break
			}
		}
		if len(po) != len(pc) {
			res.Failures = append(res.Failures, fmt.Sprintf("%s: %d Schema objects in the original, %d in the clone", label, len(po), len(pc)))
		}
		// both under one parent must still be a tree
		parent := &Schema{AllOf: []*Schema{orig, clone}}
		if _, err := parent.Resolve(nil); err != nil {
			res.Failures = append(res.Failures, fmt.Sprintf("%s: parent holding original and clone does not resolve: %v", label, err))
		}
		// writing every Schema object of the clone leaves the original unchanged
		for p := range pc {
			p.Title = "mutated"
			p.Description = "mutated"
		}
		// extending every schema-holding slice and map of the clone must not show in the original either
		for p := range pc {
			pv := reflect.ValueOf(p).Elem()
			for _, f := range c20fields() {
				fv := pv.Field(f.idx)
				switch f.kind {
				case "slice":
					if !fv.IsNil() {
						fv.Set(reflect.Append(fv, reflect.ValueOf(&Schema{Title: "appended"})))
					}
				case "map":
					if !fv.IsNil() {
						fv.SetMapIndex(reflect.ValueOf("inserted"), reflect.ValueOf(&Schema{Title: "inserted"}))
					}
				}
			}
		}
		// ... and then extending the original's slices must not overwrite what the clone just appended
		for p := range po {
			pv := reflect.ValueOf(p).Elem()
			for _, f := range c20fields() {
				if fv := pv.Field(f.idx); f.kind == "slice" && !fv.IsNil() {
					fv.Set(reflect.Append(fv, reflect.ValueOf(&Schema{Title: "orig-appended"})))
					fv.Set(fv.Slice(0, fv.Len()-1))
				}
			}
		}
		again, _ := json.Marshal(orig)
		if !bytes.Equal(before, again) {
			res.Failures = append(res.Failures, label+": mutating the clone (fields, appended slice elements, inserted map entries) changed the original")
		}
		for p := range pc {
			pv := reflect.ValueOf(p).Elem()
			for _, f := range c20fields() {
				if fv := pv.Field(f.idx); f.kind == "slice" && !fv.IsNil() && fv.Len() > 0 {
					if last := fv.Index(fv.Len() - 1).Interface().(*Schema); last != nil && last.Title == "orig-appended" {
						res.Failures = append(res.Failures, label+": clone and original share the backing array of "+f.name)
					}
				}
			}
		}
	}
	fields := c20fields()
	for _, f := range fields {
		res.Fields = append(res.Fields, f.name+":"+f.kind)
	}
	for _, f := range fields {
		shapes := []int{1}
		if f.kind == "map" {
			shapes = []int{0, 1, 2}
		}
		if f.kind == "slice" {
			shapes = []int{-1, 0, 1, 2}
		}
		for _, sh := range shapes {
			for depth := 1; depth <= 3; depth++ {
				var build func(d int) *Schema
				build = func(d int) *Schema {
					s := c20leaf()
					if d > 0 {
						c20set(s, f, sh, func() *Schema { return build(d - 1) })
					}
					return s
				}
				check(fmt.Sprintf("only %s shape %d depth %d", f.name, sh, depth), build(depth))
			}
		}
	}
	// every field at once (the mutually exclusive keywords in both combinations)
	for depth := 1; depth <= 2; depth++ {
		a, b := map[string]bool{}, map[string]bool{}
		for x, y := range c20exclusive {
			a[x] = true
			b[y] = true
		}
		check(fmt.Sprintf("all fields (2020-12 variants) depth %d", depth), c20all(depth, a))
		check(fmt.Sprintf("all fields (draft-07 variants) depth %d", depth), c20all(depth, b))
	}
	check("nil receiver children only", &Schema{})
	out, _ := json.MarshalIndent(res, "", " ")
	if p := os.Getenv("C20_OUT"); p != "" {
		os.WriteFile(p, out, 0o644)
	}
	for _, f := range res.Failures {
		t.Error(f)
	}
}
