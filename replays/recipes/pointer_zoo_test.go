package jsonschema

import (
	"fmt"
	"testing"
)

// Replay for obligations of dereferenceJSONPointer / parseJSONPointer: Resolve must return (never panic)
// for a zoo of JSON-pointer references into every container shape.
func TestReplayPointerZoo(t *testing.T) {
	base := `{"allOf":[{"type":"string"}],"prefixItems":[{},{}],"properties":{"a":{"items":{}},"":{}} ,"$defs":{"x/y":{},"m~n":{}},"required":["a"],"$ref":%q}`
	ptrs := []string{"#/allOf/-1", "#/allOf/1", "#/allOf/0", "#/allOf/00", "#/allOf/-", "#/allOf/x", "#/allOf/9999999999999999999999",
		"#/prefixItems/2", "#/prefixItems/-2", "#/properties/a/items", "#/properties/", "#/properties/b", "#/$defs/x~1y", "#/$defs/m~0n",
		"#/required/0", "#/required/-1", "#/type", "#/allOf/0/type", "#/nosuch", "#/", "#//", "#/allOf/0/allOf/0"}
	for _, p := range ptrs {
		func() {
			defer func() {
				if r := recover(); r != nil {
					t.Errorf("Resolve with $ref %q panicked: %v", p, r)
				}
			}()
			var s Schema
			if err := s.UnmarshalJSON([]byte(fmt.Sprintf(base, p))); err != nil {
				t.Fatalf("unmarshal: %v", err)
			}
			_, err := s.Resolve(nil)
			_ = err
		}()
	}
}
