package jsonschema

import (
	"encoding/json"
	"testing"
)

// Replay of obligation jsonType/post@name#5: a json.Number (kind String) is classified "string",
// so its verdict differs from the canonical float64 representation of the same JSON number.
func TestReplayJSONNumberType(t *testing.T) {
	check := func(doc string, canonical, numbered any) {
		var s Schema
		if err := s.UnmarshalJSON([]byte(doc)); err != nil {
			t.Fatal(err)
		}
		rs, err := s.Resolve(nil)
		if err != nil {
			t.Fatal(err)
		}
		e1, e2 := rs.Validate(canonical), rs.Validate(numbered)
		if (e1 == nil) != (e2 == nil) {
			t.Errorf("schema %s: float64 %v -> %v, json.Number %v -> %v", doc, canonical, e1, numbered, e2)
		}
	}
	check(`{"type":"number"}`, 1.5, json.Number("1.5"))
	check(`{"type":"string"}`, 1.5, json.Number("1.5"))
	check(`{"type":"integer"}`, 2.0, json.Number("2"))
	check(`{"minLength":3}`, 1.0, json.Number("1"))
}
