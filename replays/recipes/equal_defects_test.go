package jsonschema

import (
	"encoding/json"
	"testing"
)

type replayKey string

// Replay of equalValue/pre@(reflect.Value).MapIndex#1[keytype]: two maps with different string-kind key types.
func TestReplayEqualMapKeyTypes(t *testing.T) {
	defer func() {
		if r := recover(); r != nil {
			t.Fatalf("Equal panicked: %v", r)
		}
	}()
	if !Equal(map[string]any{"a": 1.0}, map[replayKey]any{"a": 1.0}) {
		t.Errorf("Equal(map[string]any{a:1}, map[replayKey]any{a:1}) = false, want true (same JSON object)")
	}
}

// Replay of equalValue/post@mixed#26: a json.Number and a string with the same spelling are different JSON values.
func TestReplayEqualNumberVsString(t *testing.T) {
	if Equal(json.Number("1"), "1") {
		t.Errorf(`Equal(json.Number("1"), "1") = true, want false (number 1 vs string "1")`)
	}
	if Equal("1", json.Number("1")) {
		t.Errorf(`Equal("1", json.Number("1")) = true, want false`)
	}
}
