package jsonschema

import (
	"fmt"
	"testing"
)

// Replay of obligation (*state).validate/pre@property#N[keytype]: the instance is a map whose key type
// is a named string type; property() calls reflect.Value.MapIndex with a plain string key.
type replayMS string

func replayNoPanic(t *testing.T, what string, f func() error) {
	t.Helper()
	defer func() {
		if r := recover(); r != nil {
			t.Fatalf("%s panicked: %v", what, r)
		}
	}()
	err := f()
	t.Logf("%s returned %v", what, err)
}

func TestReplayNamedStringKey(t *testing.T) {
	for _, doc := range []string{
		`{"properties":{"a":{"type":"integer"}}}`,
		`{"required":["a"]}`,
		`{"dependentRequired":{"a":["b"]}}`,
		`{"dependentSchemas":{"a":{"minProperties":1}}}`,
	} {
		var s Schema
		if err := s.UnmarshalJSON([]byte(doc)); err != nil {
			t.Fatal(err)
		}
		rs, err := s.Resolve(nil)
		if err != nil {
			t.Fatal(err)
		}
		replayNoPanic(t, fmt.Sprintf("Validate(%s, map[replayMS]any)", doc), func() error {
			return rs.Validate(map[replayMS]any{"a": 1})
		})
	}
}
