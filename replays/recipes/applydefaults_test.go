package jsonschema

import "testing"

type replayMS2 string

func replayDefaults(t *testing.T, doc string, instancep any) {
	var s Schema
	if err := s.UnmarshalJSON([]byte(doc)); err != nil {
		t.Fatal(err)
	}
	rs, err := s.Resolve(nil)
	if err != nil {
		t.Fatal(err)
	}
	defer func() {
		if r := recover(); r != nil {
			t.Fatalf("ApplyDefaults panicked: %v", r)
		}
	}()
	if err := rs.ApplyDefaults(instancep); err != nil {
		t.Logf("error: %v", err)
	}
}

// Replay of (*state).applyDefaults/pre@(reflect.Value).SetMapIndex#*[keytype]: a map whose key type is a named
// string type.
func TestReplayApplyDefaultsNamedKey(t *testing.T) {
	m := map[replayMS2]any{}
	replayDefaults(t, `{"properties":{"a":{"default":1}}}`, &m)
}

// Replay of (*state).applyDefaults/pre@(reflect.Value).SetMapIndex#*[nonnil]: a null default leaves a nil map
// behind, into which a nested default is then written.
func TestReplayApplyDefaultsNullDefault(t *testing.T) {
	m := map[string]map[string]any{}
	replayDefaults(t, `{"properties":{"a":{"default":null,"properties":{"b":{"default":1}}}}}`, &m)
}
