package main

import (
	"fmt"
	"go/token"
	"go/types"
	"regexp"
	"sort"
	"strings"

	"golang.org/x/tools/go/ssa"
)

type FuncResult struct {
	Key      string
	Fn       *ssa.Function
	Obs      []*Obligation
	Notes    []string
	Unsup    map[string]int
	Err      string // translation / binding failure (function outside subset, drift)
	Prelude  string
	NBlocks  int
	NLoops   int
	LoopKeys []string
	HasSpec  bool
	SolveSec float64
	Trusted  []string
}

func (e *Engine) newTrans(fn *ssa.Function) *Trans {
	tr := &Trans{eng: e, fn: fn, name: e.fnKey(fn), il: newILFunc(e.fnKey(fn)),
		obCount: map[string]int{}, loopInfo: map[*ILBlock]*loopOrigin{}, callN: map[string]int{},
		localVar: map[string][]*localRef{}, safety: true, lets: map[string]TExpr{}, modCoarse: map[string]bool{},
		cellVals: map[*MVar]*Val{}, defs: map[string]string{}, rangeIntBound: map[*MVar]string{}, freshRefs: map[string]bool{}, knownNew: map[string]bool{}, knownOld: map[string]bool{}}
	tr.alloc = tr.il.mvar("$alloc", "Int")
	tr.contract = e.contractFor(fn)
	return tr
}

// translate builds the IL of fn and returns the VC set (obligations with queries).
func (e *Engine) translate(fn *ssa.Function) (res *FuncResult, tr *Trans) {
	res = &FuncResult{Key: e.fnKey(fn), Fn: fn}
	defer func() {
		if r := recover(); r != nil {
			if ee, ok := r.(elabErr); ok {
				res.Err = "spec error: " + string(ee)
				return
			}
			res.Err = fmt.Sprintf("translator panic: %v", r)
			if e.scanMode {
				return
			}
			panic(r)
		}
	}()
	tr = e.newTrans(fn)
	top := tr.newFrame(fn, nil)
	tr.top = top
	entry := tr.il.newBlock("entry")
	tr.il.Entry = entry
	tr.cur = entry
	sc := &Scope{vars: map[string]TExpr{}, eng: e, il: tr.il}
	tr.scope = sc
	entry.assume(fmt.Sprintf("(>= %s 0)", cur(tr.alloc)))
	if tr.contract != nil && tr.contract.Entry {
		// public API entry point: everything that exists now is visible to the caller
		entry.assume(fmt.Sprintf("(= epoch %s)", cur(tr.alloc)))
	} else {
		entry.assume(fmt.Sprintf("(<= epoch %s)", cur(tr.alloc)))
	}
	if tr.contract != nil && tr.contract.NoFrame {
		tr.noFrame = true
	}
	var cnames []string
	if tr.contract != nil {
		cnames = tr.contract.Params
	}
	for i, p := range fn.Params {
		srt := tr.sortOf(p.Type())
		c := sanitize("p_" + p.Name())
		tr.il.declConst(c, srt.Sort)
		v := &Val{K: VExpr, E: c, T: p.Type()}
		top.params = append(top.params, v)
		tr.typeFacts(v)
		te := TExpr{E: c, Sort: srt.Sort, GoT: p.Type()}
		sc.vars[p.Name()] = te
		if i < len(cnames) {
			sc.vars[cnames[i]] = te
		}
		// implicit precondition: pointer receivers are non-nil (checked at in-package call sites)
		if i == 0 && fn.Signature.Recv() != nil && !(tr.contract != nil && tr.contract.NilRecv) {
			if _, ok := p.Type().Underlying().(*types.Pointer); ok {
				entry.assume("(not (= " + c + " 0))")
			}
		}
	}
	for _, fv := range fn.FreeVars {
		c := sanitize("fv_" + fv.Name())
		tr.il.declConst(c, "Int")
		v := &Val{K: VExpr, E: c, T: fv.Type()}
		top.binds = append(top.binds, v)
		entry.assume(fmt.Sprintf("(and (> %s 0) (<= %s %s))", c, c, cur(tr.alloc)))
		et := fv.Type().(*types.Pointer).Elem()
		if _, isStruct := et.Underlying().(*types.Struct); isStruct && (strings.HasPrefix(tr.sortOf(et).Sort, "S_") || e.isOpaque(et)) {
			// a captured struct variable: the name denotes a pointer to it
			sc.vars[fv.Name()] = TExpr{E: c, Sort: "Int", GoT: fv.Type()}
		} else {
			comp, srt := e.sorts.cellComp(et)
			e.compSorts[comp] = srt
			sc.vars[fv.Name()] = TExpr{E: c, Sort: tr.sortOf(et).Sort, GoT: et, Cell: &CellRef{Comp: comp, Sort: srt, Ref: c}}
		}
	}
	tr.prepareDefers(top)
	for _, d := range top.defers {
		entry.assign(d.guard, "false")
	}
	if tr.name == "init" {
		// the package initializer runs once: its guard variable is false on entry
		for _, m := range fn.Pkg.Members {
			if g, ok := m.(*ssa.Global); ok && g.Name() == "init$guard" {
				name := "G_" + sanitize(g.Pkg.Pkg.Name()+"."+g.Name())
				gv := tr.il.mvar(name, "Bool")
				gv.Comp = name
				entry.assume("(not " + cur(gv) + ")")
			}
		}
	}
	if !strings.HasPrefix(tr.name, "init") {
		for _, cl := range e.globalInv {
			te, err := sc.elab(cl.E)
			if err != nil {
				e.fatal("globalinv %q: %v", cl.Src, err)
				continue
			}
			entry.assume(te.E)
		}
	}
	if ct := tr.contract; ct != nil {
		res.HasSpec = true
		tr.props = ct.Tags
		tr.setupFrame(ct, sc)
		for _, oi := range ct.PreOrder {
			if oi < 0 {
				l := ct.Lets[-oi-1]
				te, err := sc.elab(l.E)
				if err != nil {
					e.fatal("%s: let %s: %v", ct.File, l.Name, err)
					continue
				}
				c := tr.freshConst("let_"+l.Name, te.Sort)
				entry.assume(fmt.Sprintf("(= %s %s)", c, te.E))
				sc.vars[l.Name] = TExpr{E: c, Sort: te.Sort, GoT: te.GoT, Old: te.Old}
				continue
			}
			cl := ct.Requires[oi]
			te, err := sc.elab(cl.E)
			if err != nil {
				e.fatal("%s:%d: requires %q: %v", ct.File, cl.Line, cl.Src, err)
				continue
			}
			entry.assume(te.E)
			markOld(sc, cl.E)
			// parameters declared new(p) / isold(p): heap reads through them need no case split
			nn, on := map[string]bool{}, map[string]bool{}
			newNames(cl.E, nn)
			oldNames(cl.E, on)
			for n := range nn {
				if v, ok := sc.lookup(n); ok && v.Cell == nil {
					tr.knownNew[v.E] = true
					v.New = true
					sc.vars[n] = v
				}
			}
			for n := range on {
				if v, ok := sc.lookup(n); ok && v.Cell == nil {
					tr.knownOld[v.E] = true
				}
			}
		}
	}
	cov := tr.ob("cover", "entry", fn.Pos(), "background axioms and preconditions are satisfiable", tr.eng.propsFor(tr.name, "cover"))
	cov.Cover = true
	entry.assert("true", cov)
	entry.edge(top.blocks[fn.Blocks[0]], "true")
	tr.translateBody(top)
	tr.finishPhis(top)
	tr.expandDefers()
	// the sorts of all heap components this function touches (needed when a caller must havoc a component
	// of a callee's write set that it has not used itself yet)
	for k, v := range tr.il.Vars {
		if v.Comp != "" {
			e.compSorts[k] = v.Sort
		}
	}
	if e.scanMode {
		return res, tr
	}
	if err := tr.il.findLoops(); err != nil {
		res.Err = err.Error()
		return res, tr
	}
	tr.bindLoops()
	tr.attachInvariants(res)
	tr.insertExitChecks()
	tr.il.cutLoops(tr.name, tr.props)
	for k, v := range tr.il.Vars {
		if v.Comp != "" {
			e.compSorts[k] = v.Sort
		}
	}
	res.NBlocks = len(tr.il.Blocks)
	res.NLoops = len(tr.il.Loops)
	for _, l := range tr.il.Loops {
		res.LoopKeys = append(res.LoopKeys, l.Key)
	}
	res.Notes = tr.notes
	res.Unsup = tr.unsup
	return res, tr
}

func (tr *Trans) setupFrame(ct *Contract, sc *Scope) {
	if !ct.HasMod {
		return
	}
	tr.checkMod = true
	for _, m := range ct.Modifies {
		switch {
		case strings.HasPrefix(m, "*"):
			pn := strings.TrimSpace(m[1:])
			te, ok := sc.lookup(pn)
			if !ok || te.GoT == nil {
				tr.eng.fatal("%s: modifies %q: unknown parameter", ct.File, m)
				continue
			}
			for _, c := range tr.eng.locComps(te, "val") {
				tr.modSpecific = append(tr.modSpecific, modLoc{c, te.E})
			}
		case strings.Contains(m, "[") && strings.HasSuffix(m, "]") && tr.eng.ghost[m[:strings.Index(m, "[")]] != "":
			g := m[:strings.Index(m, "[")]
			idx, err := parseExpr(m[strings.Index(m, "[")+1 : len(m)-1])
			if err != nil {
				tr.eng.fatal("%s: modifies %q: %v", ct.File, m, err)
				continue
			}
			osc := sc.child()
			osc.useOld = true
			it, err := osc.elab(idx)
			if err != nil {
				tr.eng.fatal("%s: modifies %q: %v", ct.File, m, err)
				continue
			}
			tr.modSpecific = append(tr.modSpecific, modLoc{g, refOf(it)})
		case strings.Contains(m, "."):
			i := strings.LastIndex(m, ".")
			base, err := parseExpr(m[:i])
			if err != nil {
				tr.eng.fatal("%s: modifies %q: %v", ct.File, m, err)
				continue
			}
			osc := sc.child()
			osc.useOld = true
			bt, err := osc.elab(base)
			if err != nil {
				tr.eng.fatal("%s: modifies %q: %v", ct.File, m, err)
				continue
			}
			for _, c := range tr.eng.locComps(bt, m[i+1:]) {
				tr.modSpecific = append(tr.modSpecific, modLoc{c, refOf(bt)})
			}
		default:
			if te, ok := sc.lookup(m); ok && te.Cell != nil {
				// a captured variable (free variable of a closure under contract)
				tr.modSpecific = append(tr.modSpecific, modLoc{te.Cell.Comp, te.Cell.Ref})
			} else {
				tr.modCoarse[m] = true
			}
		}
	}
}

// attachInvariants binds loop specs to IL loops and elaborates them.
func (tr *Trans) attachInvariants(res *FuncResult) {
	ct := tr.contract
	byKey := map[string]*ILLoop{}
	copies := map[string][]*ILLoop{}
	for _, l := range tr.il.Loops {
		if l.Key != "" {
			if l.CopyOf != nil {
				copies[l.Key] = append(copies[l.Key], l)
				continue
			}
			byKey[l.Key] = l
		}
	}
	if ct != nil {
		for _, ls := range ct.Loops {
			l := byKey[ls.Key]
			if l == nil {
				var ks []string
				for k := range byKey {
					ks = append(ks, k)
				}
				sort.Strings(ks)
				res.Err = fmt.Sprintf("contract drift: loop %q of %s not found (loops: %s)", ls.Key, tr.name, strings.Join(ks, " | "))
				continue
			}
			l.Spec = ls
			for _, c := range copies[ls.Key] {
				c.Spec = ls
			}
		}
	}
	defer func() {
		if ct != nil {
			for _, cl := range ct.LoopInvs {
				if !cl.Used && len(tr.il.Loops) > 0 {
					tr.eng.fatal("%s:%d: loopinv %q does not apply to any loop of %s", ct.File, cl.Line, cl.Src, tr.name)
				}
			}
		}
	}()
	for _, l := range tr.il.Loops {
		// auto invariants
		auto := func(tag, e string) {
			l.Inv = append(l.Inv, InvClause{E: e, Auto: tag, Props: tr.eng.propsFor(tr.name, "inv-auto")})
		}
		auto("alloc", fmt.Sprintf("(>= %s @pre{$alloc})", cur(tr.alloc)))
		if lo := tr.loopInfo[l.Head]; lo != nil {
			if lo.jump != nil {
				auto("jump", fmt.Sprintf("(= %s 0)", cur(lo.jump)))
			} else if lo.jumpExpr != "" {
				auto("jump", fmt.Sprintf("(= %s 0)", lo.jumpExpr))
			}
		}
		innerMod := map[*MVar]bool{}
		for _, o := range tr.il.Loops {
			if o != l && len(o.Body) < len(l.Body) && l.Body[o.Head] {
				for _, v := range o.Modified {
					innerMod[v] = true
				}
			}
		}
		for _, v := range l.Modified {
			if v.Sort == "Int" && strings.HasPrefix(v.Name, "c$") && tr.onlyIncremented(l, v) {
				auto("mono:"+v.Name, fmt.Sprintf("(>= %s @pre{%s})", cur(v), v.Name))
			}
			if strings.HasPrefix(v.Name, "nvisited$") && !innerMod[v] {
				auto("nvisited", fmt.Sprintf("(>= %s 0)", cur(v)))
			}
			if v.Sort == "Slice" && strings.HasPrefix(v.Name, "c$") && !tr.declaredInLoop(l, v) && tr.ownedSliceCell(v) {
				auto("owned:"+v.Name, fmt.Sprintf("(or (= (s_arr %s) 0) (> (s_arr %s) %s))", cur(v), cur(v), old(tr.alloc)))
			}
			if b, ok := tr.rangeIntBound[v]; ok {
				auto("rangeint:"+v.Name, fmt.Sprintf("(and (<= 0 %s) (< %s %s))", cur(v), cur(v), b))
			}
		}
		var cls []*Clause
		if ct != nil {
			cls = append(cls, ct.LoopInvs...)
		}
		if l.Spec != nil {
			cls = append(cls, l.Spec.Invariants...)
		}
		if len(cls) == 0 {
			continue
		}
		sc := tr.loopScope(l)
		for ci, cl := range cls {
			if cl.After != "" {
				// a function-wide invariant that only holds from a certain loop on
				ref := byKey[cl.After]
				if ref == nil {
					tr.eng.fatal("%s:%d: loopinv %q: no loop %q in %s", ct.File, cl.Line, cl.Name, cl.After, tr.name)
					continue
				}
				if !(l.Pos > ref.Pos) {
					continue
				}
				cl.Used = true
			}
			te, err := sc.elab(cl.E)
			if err != nil && ct != nil && ci < len(ct.LoopInvs) && strings.Contains(err.Error(), "unknown identifier") {
				// a function-wide loop invariant that mentions a local not yet declared at this loop
				continue
			}
			if err == nil && ct != nil && ci < len(ct.LoopInvs) {
				cl.Used = true
			}
			if err != nil {
				tr.eng.fatal("%s:%d: invariant %q: %v", ct.File, cl.Line, cl.Src, err)
				continue
			}
			props := cl.Tags
			if len(props) == 0 {
				props = ct.Tags
			}
			l.Inv = append(l.Inv, InvClause{E: te.E, Cl: cl, Props: props})
		}
	}
}

var incRe = regexp.MustCompile(`^\(\+ (\S+) (\d+)\)$`)

// onlyIncremented: every assignment to v inside the loop has the form v := v + k (k >= 0).
func (tr *Trans) onlyIncremented(l *ILLoop, v *MVar) bool {
	found := false
	for b := range l.Body {
		for _, s := range b.Stmts {
			if s.V != v {
				continue
			}
			if s.K == SHavoc {
				return false
			}
			if s.K != SAssign {
				continue
			}
			def := tr.defs[s.E]
			m := incRe.FindStringSubmatch(def)
			if m == nil {
				return false
			}
			if tr.defs[m[1]] != cur(v) {
				return false
			}
			found = true
		}
	}
	return found
}

func (tr *Trans) loopScope(l *ILLoop) *Scope {
	sc := tr.scope.child()
	lpos := token.Pos(minPos(l))
	loopFrame, _ := l.Head.Owner.(*Frame)
	visible := func(fr *Frame) bool {
		if loopFrame == nil {
			return fr.parent == nil
		}
		for f := loopFrame; f != nil; f = f.parent {
			if f == fr {
				return true
			}
		}
		return false
	}
	for name, refs := range tr.localVar {
		var best *localRef
		for _, r := range refs {
			if !visible(r.frame) {
				continue
			}
			if r.obj != nil {
				if r.obj.Parent() == nil || !r.obj.Parent().Contains(lpos) {
					continue
				}
			} else if r.pos > lpos {
				continue
			}
			if best == nil || r.pos > best.pos || (r.pos == best.pos && r.frame.depth < best.frame.depth) {
				best = r
			}
		}
		if best == nil {
			continue
		}
		a := best.addr
		t := a.valueType()
		srt := tr.sortOf(t).Sort
		switch a.K {
		case RCell:
			if len(a.Path) == 0 {
				sc.vars[name] = TExpr{E: cur(a.Var), Sort: srt, GoT: t}
			}
		case RHeapCell:
			comp, csrt := tr.eng.sorts.cellComp(a.T)
			sc.vars[name] = TExpr{E: a.Ref, Sort: srt, GoT: t, Cell: &CellRef{Comp: comp, Sort: csrt, Ref: a.Ref}}
		case RWhole:
			// a struct-typed local that lives on the heap: the name denotes a pointer to it
			sc.vars[name] = TExpr{E: a.Ref, Sort: "Int", GoT: types.NewPointer(a.StructT)}
		}
	}
	// the visited set of this loop's map range / iterator
	inner := map[*MVar]bool{}
	for _, o := range tr.il.Loops {
		if o != l && len(o.Body) < len(l.Body) && l.Body[o.Head] {
			for _, v := range o.Modified {
				inner[v] = true
			}
		}
	}
	for _, v := range l.Modified {
		if strings.HasSuffix(v.Name, "$rangeindex") && !inner[v] {
			sc.vars["$idx"] = TExpr{E: cur(v), Sort: "Int"}
		}
		if strings.HasSuffix(v.Name, "$rangeint.iter") && !inner[v] {
			sc.vars["$i"] = TExpr{E: cur(v), Sort: "Int"}
		}
		if strings.HasPrefix(v.Name, "visited$") && !inner[v] {
			sc.vars["visited"] = TExpr{E: cur(v), Sort: v.Sort}
		}
		if strings.HasPrefix(v.Name, "nvisited$") && !inner[v] {
			sc.vars["nvisited"] = TExpr{E: cur(v), Sort: "Int"}
		}
	}
	// "outervisited": the visited set of the innermost enclosing map range / iterator loop
	var encl *ILLoop
	for _, o := range tr.il.Loops {
		if o != l && o.Body[l.Head] && (encl == nil || len(o.Body) < len(encl.Body)) {
			has := false
			for _, v := range o.Modified {
				if strings.HasPrefix(v.Name, "visited$") && !modifiedIn(l, v) {
					has = true
				}
			}
			if has {
				encl = o
			}
		}
	}
	if encl != nil {
		for _, v := range encl.Modified {
			if strings.HasPrefix(v.Name, "visited$") && !modifiedIn(l, v) {
				own := false
				for _, o := range tr.il.Loops {
					if o != encl && o != l && encl.Body[o.Head] && len(o.Body) < len(encl.Body) && modifiedIn(o, v) {
						own = true // belongs to a loop nested in encl (a sibling of l)
					}
				}
				if !own {
					sc.vars["outervisited"] = TExpr{E: cur(v), Sort: v.Sort}
				}
			}
		}
	}
	return sc
}

func modifiedIn(l *ILLoop, v *MVar) bool {
	for _, w := range l.Modified {
		if w == v {
			return true
		}
	}
	return false
}

// newNames collects identifiers v for which the formula contains the conjunct new(v).
func newNames(n Node, out map[string]bool) {
	switch x := n.(type) {
	case *NBinary:
		if x.Op == "&&" {
			newNames(x.X, out)
			newNames(x.Y, out)
		}
	case *NCall:
		if x.Fn == "new" && len(x.Args) == 1 {
			if id, ok := x.Args[0].(*NIdent); ok {
				out[id.Name] = true
			}
		}
	}
}

// markOld records isold(x) conjuncts of an assumed clause in the scope itself.
func markOld(sc *Scope, n Node) {
	sc.learnConstOnly = true
	sc.learn(n)
	sc.learnConstOnly = false
	names := map[string]bool{}
	oldNames(n, names)
	for name := range names {
		if v, ok := sc.lookup(name); ok {
			v.Old = true
			sc.vars[name] = v
		}
	}
}

// ownedSliceCell: every assignment to the slice variable is nil, a fresh allocation or an append result.
func (tr *Trans) ownedSliceCell(v *MVar) bool {
	n := 0
	for _, b := range tr.il.Blocks {
		for _, s := range b.Stmts {
			if s.V != v {
				continue
			}
			if s.K == SHavoc {
				return false
			}
			if s.K != SAssign {
				continue
			}
			n++
			e := s.E
			if d, ok := tr.defs[e]; ok {
				e = d
			}
			switch {
			case e == "(mk_slice 0 0)":
			case strings.HasPrefix(e, "(mk_slice append!"), strings.HasPrefix(e, "(mk_slice mkslice!"), strings.HasPrefix(e, "(mk_slice arr!"):
			default:
				return false
			}
		}
	}
	return n > 0
}

// declaredInLoop: the variable is (re)declared inside the loop body (its zero-initialisation is part of the body),
// so it carries nothing from one iteration to the next.
func (tr *Trans) declaredInLoop(l *ILLoop, v *MVar) bool {
	zero := ""
	switch v.Sort {
	case "Slice":
		zero = "(mk_slice 0 0)"
	case "Int":
		zero = "0"
	default:
		return false
	}
	for b := range l.Body {
		for _, s := range b.Stmts {
			if s.K == SAssign && s.V == v && s.E == zero {
				return true
			}
		}
	}
	return false
}

// insertExitChecks: "exit" clauses of a loop hold on every edge leaving the loop body.
func (tr *Trans) insertExitChecks() {
	ct := tr.contract
	for _, l := range tr.il.Loops {
		if l.Spec == nil || len(l.Spec.Exits) == 0 {
			continue
		}
		sc := tr.loopScope(l)
		var members []*ILBlock
		for b := range l.Body {
			members = append(members, b)
		}
		sort.Slice(members, func(i, j int) bool { return members[i].ID < members[j].ID })
		for _, b := range members {
			for _, e := range b.Succs {
				if l.Body[e.To] {
					continue
				}
				x := tr.il.newBlock(fmt.Sprintf("loopexit(%d)", l.Head.ID))
				for _, cl := range l.Spec.Exits {
					te, err := sc.elab(cl.E)
					if err != nil {
						tr.eng.fatal("%s:%d: exit %q: %v", ct.File, cl.Line, cl.Src, err)
						continue
					}
					props := cl.Tags
					if len(props) == 0 {
						props = ct.Tags
					}
					anchor := l.Key
					if cl.Name != "" {
						anchor += "[" + cl.Name + "]"
					}
					x.assert(te.E, tr.restrict(tr.ob("exit", anchor, token.NoPos, cl.Src, props), cl))
				}
				x.edge(e.To, "true")
				e.To = x
			}
		}
	}
	tr.il.computePreds()
}
