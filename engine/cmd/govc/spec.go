package main

// Contract / specification language: lexer, parser, AST.
//
// File-level grammar (one directive per logical line; a line ending in '\' continues):
//
//   smt <raw SMT-LIB text>                       raw prelude (sorts, datatypes)
//   sort <Name>                                  uninterpreted sort
//   func <name>(<p> <sort>, ...) <sort>          uninterpreted spec function
//   func <name>(<p> <sort>, ...) <sort> = <expr> defined spec function (define-fun)
//   axiom <name>: <expr>
//   contract <GoFuncKey>(<names...>)             start of a contract (library: assumed; repo: checked)
//     requires[tags] <expr>
//     ensures[tags] <expr>
//     modifies <component>, ...                  heap components the function may write ("*" = everything)
//     pure                                        modifies nothing
//     fresh <result-name>                         result is a freshly allocated reference
//     loop "<key>"                                start of a loop block
//       invariant[tags] <expr>
//     decreases <expr>
//     iterator yields (<k> <sort>, <v> <sort>) where <expr>
//     let <name> = <expr>                         named entry value (evaluated at function entry)
//     tags <C01,C02>                              default property tags for this contract
//
// In /repo/jsonschema/contracts_verif.go every line is prefixed by "//@ ".

import (
	"regexp"
	"fmt"
	"strings"
	"unicode"
)

type tokKind int

const (
	tEOF tokKind = iota
	tIdent
	tInt
	tReal
	tString
	tOp
)

type ltoken struct {
	k   tokKind
	s   string
	pos int
}

type lexer struct {
	src  string
	pos  int
	toks []ltoken
}

func lex(src string) ([]ltoken, error) {
	var toks []ltoken
	i := 0
	for i < len(src) {
		c := src[i]
		switch {
		case c == ' ' || c == '\t' || c == '\n' || c == '\r':
			i++
		case unicode.IsLetter(rune(c)) || c == '_' || c == '$':
			j := i + 1
			for j < len(src) && (unicode.IsLetter(rune(src[j])) || unicode.IsDigit(rune(src[j])) || src[j] == '_' || src[j] == '$') {
				j++
			}
			toks = append(toks, ltoken{tIdent, src[i:j], i})
			i = j
		case unicode.IsDigit(rune(c)):
			j := i + 1
			isReal := false
			for j < len(src) && (unicode.IsDigit(rune(src[j])) || (src[j] == '.' && j+1 < len(src) && unicode.IsDigit(rune(src[j+1])))) {
				if src[j] == '.' {
					isReal = true
				}
				j++
			}
			k := tInt
			if isReal {
				k = tReal
			}
			toks = append(toks, ltoken{k, src[i:j], i})
			i = j
		case c == '"':
			j := i + 1
			var sb strings.Builder
			for j < len(src) && src[j] != '"' {
				if src[j] == '\\' && j+1 < len(src) {
					j++
					switch src[j] {
					case 'n':
						sb.WriteByte('\n')
					case 't':
						sb.WriteByte('\t')
					default:
						sb.WriteByte(src[j])
					}
				} else {
					sb.WriteByte(src[j])
				}
				j++
			}
			if j >= len(src) {
				return nil, fmt.Errorf("unterminated string at %d", i)
			}
			toks = append(toks, ltoken{tString, sb.String(), i})
			i = j + 1
		default:
			ops := []string{"<==>", "==>", "::", "==", "!=", "<=", ">=", "&&", "||", "++"}
			matched := false
			for _, op := range ops {
				if strings.HasPrefix(src[i:], op) {
					toks = append(toks, ltoken{tOp, op, i})
					i += len(op)
					matched = true
					break
				}
			}
			if !matched {
				if strings.ContainsRune("()[]{}.,<>+-*/%!:=?|&", rune(c)) {
					toks = append(toks, ltoken{tOp, string(c), i})
					i++
				} else {
					return nil, fmt.Errorf("bad character %q at %d in %q", c, i, src)
				}
			}
		}
	}
	toks = append(toks, ltoken{tEOF, "", len(src)})
	return toks, nil
}

// ---- AST ----

type Node interface{}

type (
	NIdent  struct{ Name string }
	NInt    struct{ V string }
	NReal   struct{ V string }
	NStr    struct{ V string }
	NBool   struct{ V bool }
	NNil    struct{}
	NUnary  struct {
		Op string
		X  Node
	}
	NBinary struct {
		Op   string
		X, Y Node
	}
	NField struct {
		X    Node
		Name string
	}
	NIndex struct{ X, I Node }
	NCall  struct {
		Fn   string
		Args []Node
	}
	NOld   struct{ X Node }
	NQuant struct {
		Forall   bool
		Vars     []QVar
		Body     Node
		Patterns [][]Node // optional triggers: { t1, t2 } { t3 }
	}
	NIte struct{ C, A, B Node }
)

type QVar struct{ Name, Sort string }

type parser struct {
	toks []ltoken
	p    int
	src  string
}

func parseExpr(src string) (n Node, err error) {
	toks, err := lex(src)
	if err != nil {
		return nil, err
	}
	p := &parser{toks: toks, src: src}
	defer func() {
		if r := recover(); r != nil {
			if pe, ok := r.(parseErr); ok {
				err = fmt.Errorf("%s in %q", string(pe), src)
				return
			}
			panic(r)
		}
	}()
	n = p.expr()
	if p.peek().k != tEOF {
		p.fail("unexpected %q", p.peek().s)
	}
	return n, nil
}

type parseErr string

func (p *parser) fail(f string, a ...any) { panic(parseErr(fmt.Sprintf(f, a...))) }
func (p *parser) peek() ltoken              { return p.toks[p.p] }
func (p *parser) next() ltoken              { t := p.toks[p.p]; p.p++; return t }
func (p *parser) isOp(s string) bool       { t := p.peek(); return t.k == tOp && t.s == s }
func (p *parser) isIdent(s string) bool    { t := p.peek(); return t.k == tIdent && t.s == s }
func (p *parser) accept(s string) bool {
	if p.isOp(s) {
		p.p++
		return true
	}
	return false
}
func (p *parser) expect(s string) {
	if !p.accept(s) {
		p.fail("expected %q, got %q", s, p.peek().s)
	}
}

func (p *parser) expr() Node {
	if p.isIdent("forall") || p.isIdent("exists") {
		fa := p.next().s == "forall"
		var vars []QVar
		for {
			name := p.next()
			if name.k != tIdent {
				p.fail("quantifier variable expected")
			}
			srt := p.sortName()
			vars = append(vars, QVar{name.s, srt})
			if !p.accept(",") {
				break
			}
		}
		var pats [][]Node
		for p.accept("{") {
			var pat []Node
			for {
				pat = append(pat, p.expr())
				if !p.accept(",") {
					break
				}
			}
			p.expect("}")
			pats = append(pats, pat)
		}
		p.expect("::")
		body := p.expr()
		return &NQuant{fa, vars, body, pats}
	}
	return p.iff()
}

// sortName parses a sort: Ident or Ident<sort,...> e.g. Array<int,bool>
func (p *parser) sortName() string {
	if p.accept("*") {
		return "*" + p.sortName()
	}
	if p.isOp("[") {
		p.next()
		p.expect("]")
		return "[]" + p.sortName()
	}
	t := p.next()
	if t.k != tIdent {
		p.fail("sort expected, got %q", t.s)
	}
	s := t.s
	if p.isOp(".") && p.toks[p.p+1].k == tIdent {
		p.next()
		s += "." + p.next().s
	}
	if s == "keyof" && p.isOp("(") {
		// keyof(m): the key type of the map-typed variable m (for contracts of generic functions)
		p.next()
		id := p.next()
		if id.k != tIdent {
			p.fail("keyof(variable) expected")
		}
		p.expect(")")
		return "keyof(" + id.s + ")"
	}
	if s == "map" && p.isOp("[") {
		p.next()
		k := p.sortName()
		p.expect("]")
		return "map[" + k + "]" + p.sortName()
	}
	if p.accept("<") {
		var args []string
		for {
			args = append(args, p.sortName())
			if !p.accept(",") {
				break
			}
		}
		p.expect(">")
		s += "<" + strings.Join(args, ",") + ">"
	}
	return s
}

func (p *parser) iff() Node {
	x := p.impl()
	for p.accept("<==>") {
		y := p.impl()
		x = &NBinary{"<==>", x, y}
	}
	return x
}

func (p *parser) impl() Node {
	x := p.or()
	if p.accept("==>") {
		y := p.implRHS()
		return &NBinary{"==>", x, y}
	}
	return x
}

func (p *parser) implRHS() Node {
	if p.isIdent("forall") || p.isIdent("exists") {
		return p.expr()
	}
	return p.impl()
}

func (p *parser) or() Node {
	x := p.and()
	for p.accept("||") {
		y := p.and()
		x = &NBinary{"||", x, y}
	}
	return x
}

func (p *parser) and() Node {
	x := p.cmp()
	for p.accept("&&") {
		y := p.cmp()
		x = &NBinary{"&&", x, y}
	}
	return x
}

func (p *parser) cmp() Node {
	x := p.add()
	for _, op := range []string{"==", "!=", "<=", ">=", "<", ">"} {
		if p.isOp(op) {
			p.next()
			y := p.add()
			return &NBinary{op, x, y}
		}
	}
	return x
}

func (p *parser) add() Node {
	x := p.mul()
	for {
		switch {
		case p.accept("+"):
			x = &NBinary{"+", x, p.mul()}
		case p.accept("-"):
			x = &NBinary{"-", x, p.mul()}
		case p.accept("++"):
			x = &NBinary{"++", x, p.mul()}
		default:
			return x
		}
	}
}

func (p *parser) mul() Node {
	x := p.unary()
	for {
		switch {
		case p.accept("*"):
			x = &NBinary{"*", x, p.unary()}
		case p.accept("/"):
			x = &NBinary{"/", x, p.unary()}
		case p.accept("%"):
			x = &NBinary{"%", x, p.unary()}
		default:
			return x
		}
	}
}

func (p *parser) unary() Node {
	if p.accept("!") {
		return &NUnary{"!", p.unary()}
	}
	if p.accept("-") {
		return &NUnary{"-", p.unary()}
	}
	if p.accept("*") {
		return &NUnary{"*", p.unary()}
	}
	return p.postfix()
}

func (p *parser) postfix() Node {
	x := p.primary()
	for {
		switch {
		case p.accept("."):
			t := p.next()
			if t.k != tIdent && t.k != tInt {
				p.fail("field name expected")
			}
			x = &NField{x, t.s}
		case p.accept("["):
			i := p.expr()
			p.expect("]")
			x = &NIndex{x, i}
		default:
			return x
		}
	}
}

func (p *parser) primary() Node {
	t := p.next()
	switch t.k {
	case tInt:
		return &NInt{t.s}
	case tReal:
		return &NReal{t.s}
	case tString:
		return &NStr{t.s}
	case tIdent:
		switch t.s {
		case "true":
			return &NBool{true}
		case "false":
			return &NBool{false}
		case "nil":
			return &NNil{}
		case "old":
			p.expect("(")
			x := p.expr()
			p.expect(")")
			return &NOld{x}
		case "ite":
			p.expect("(")
			c := p.expr()
			p.expect(",")
			a := p.expr()
			p.expect(",")
			b := p.expr()
			p.expect(")")
			return &NIte{c, a, b}
		}
		if p.accept("(") {
			var args []Node
			if !p.accept(")") {
				for {
					args = append(args, p.expr())
					if p.accept(")") {
						break
					}
					p.expect(",")
				}
			}
			return &NCall{t.s, args}
		}
		return &NIdent{t.s}
	case tOp:
		if t.s == "(" {
			x := p.expr()
			p.expect(")")
			return x
		}
	}
	p.fail("unexpected token %q", t.s)
	return nil
}

// ---- contract file structure ----

type Clause struct {
	Kind string // requires, ensures, invariant, decreases, assert
	Tags []string
	Src  string
	E    Node
	Name string // optional label
	Line int
	Used bool
	// "label uses a,b: expr": only the labelled invariant clauses a, b (and this clause itself) are hypotheses
	HasUses bool
	Uses    []string
	Callee  string // atcall: callee key, optionally with "#n"
	After   string // loopinv ... after "loop key": only for loops that start after that loop in the source
}

var afterRe = regexp.MustCompile(`^(\w+)\s+after\s+"([^"]*)":`)

var usesRe = regexp.MustCompile(`^(\w+)\s+uses\s*([\w,\s]*):\s`)

// splitLabel parses an optional "label:" or "label uses a,b:" prefix.
func splitLabel(rest string) (label string, hasUses bool, uses []string, body string) {
	if m := usesRe.FindStringSubmatch(rest); m != nil {
		for _, u := range strings.Split(m[2], ",") {
			if u = strings.TrimSpace(u); u != "" {
				uses = append(uses, u)
			}
		}
		return m[1], true, uses, strings.TrimSpace(rest[len(m[0]):])
	}
	if i := strings.Index(rest, ": "); i > 0 && isIdentLike(rest[:i]) {
		return rest[:i], false, nil, strings.TrimSpace(rest[i+1:])
	}
	return "", false, nil, rest
}

type LoopSpec struct {
	Key        string
	Exits      []*Clause // hold on every edge that leaves the loop
	Invariants []*Clause
	Decreases  *Clause
	Line       int
	Used       bool
}

type IterSpec struct {
	Vars  []QVar // yielded values
	Where *Clause
}

type Contract struct {
	Key      string
	Params   []string
	Requires []*Clause
	Ensures  []*Clause
	AtCalls  []*Clause // site obligations: atcall "callee#n" label: cond
	AtLines  []*Clause // checkpoint obligations: atline "source text" label: cond (before the first instruction of that line)
	Reveal   []string  // opaque axioms available when verifying this function
	AtReturn []*Clause // like ensures, but the function's locals are in scope; checked at returns, never assumed by callers
	Lets     []struct {
		Name string
		E    Node
		Src  string
	}
	Modifies  []string
	HasMod    bool // modifies or pure given
	Fresh     []string
	Loops     []*LoopSpec
	Iter      *IterSpec
	Decreases *Clause
	Tags      []string
	Assumed   bool // library contract (trusted)
	Line      int
	File      string
	NoInline bool
	Entry    bool
	NoFrame  bool
	NilRecv  bool // the method accepts a nil receiver
	LoopInvs []*Clause // invariants of every loop of the function
	Isolated []string            // struct types whose objects, when written by this function, may only reference objects of that type allocated during the current API call
	Rejects  []*Clause           // reject "<message prefix>" <cond>: holds whenever the function builds an error with that message
	NoReads  map[string][]string // struct type name -> fields the function must never read
	PreOrder []int     // source order of requires (>=0: index into Requires) and lets (<0: -(index+1) into Lets)
	Opaque    bool // havoc everything reachable (external default)
}

type TrustedOb struct {
	Glob   string
	Reason string
}

type SpecFunc struct {
	Name   string
	Params []QVar
	Ret    string
	Body   Node
	Src    string
}

type Axiom struct {
	Name string
	E    Node
	Src  string
	Opaque bool // included only in the verification of functions whose contract says "reveal <name>"
}

type SpecFile struct {
	GlobalInv []*Clause
	Trusted   []TrustedOb
	Preds     []*SpecFunc
	Smt       []string
	Sorts     []string
	Funcs     []*SpecFunc
	Axioms    []*Axiom
	Contracts []*Contract
}

// logicalLines joins continuation lines and returns (text, lineno).
func logicalLines(src string, prefix string) []struct {
	S string
	L int
} {
	var out []struct {
		S string
		L int
	}
	lines := strings.Split(src, "\n")
	var cur string
	curL := 0
	for i, ln := range lines {
		t := strings.TrimSpace(ln)
		if prefix != "" {
			if !strings.HasPrefix(t, prefix) {
				continue
			}
			t = strings.TrimSpace(strings.TrimPrefix(t, prefix))
		}
		if t == "" || strings.HasPrefix(t, "#") {
			continue
		}
		if cur == "" {
			curL = i + 1
		}
		if strings.HasSuffix(t, "\\") {
			cur += strings.TrimSuffix(t, "\\") + " "
			continue
		}
		cur += t
		out = append(out, struct {
			S string
			L int
		}{cur, curL})
		cur = ""
	}
	return out
}

func splitTags(kw string) (string, []string) {
	if i := strings.Index(kw, "["); i >= 0 && strings.HasSuffix(kw, "]") {
		return kw[:i], strings.Split(kw[i+1:len(kw)-1], ",")
	}
	return kw, nil
}

func parseSpecFile(src, prefix, file string, assumed bool) (*SpecFile, error) {
	sf := &SpecFile{}
	var cur *Contract
	var curLoop *LoopSpec
	for _, ll := range logicalLines(src, prefix) {
		line := ll.S
		fail := func(err error) error { return fmt.Errorf("%s:%d: %v", file, ll.L, err) }
		kwEnd := strings.IndexAny(line, " \t")
		kw, rest := line, ""
		if kwEnd >= 0 {
			kw, rest = line[:kwEnd], strings.TrimSpace(line[kwEnd:])
		}
		kwBase, tags := splitTags(kw)
		switch kwBase {
		case "smt":
			sf.Smt = append(sf.Smt, rest)
			cur = nil
		case "sort":
			sf.Sorts = append(sf.Sorts, rest)
			cur = nil
		case "func":
			f, err := parseSpecFunc(rest)
			if err != nil {
				return nil, fail(err)
			}
			sf.Funcs = append(sf.Funcs, f)
			cur = nil
		case "pred":
			// pred name(params) = expr   (macro, expanded at use; may read the heap)
			eq := strings.Index(rest, "=")
			for eq >= 0 && eq+1 < len(rest) && (rest[eq+1] == '=' || (eq > 0 && strings.ContainsRune("=!<>", rune(rest[eq-1])))) {
				n := strings.Index(rest[eq+2:], "=")
				if n < 0 {
					eq = -1
					break
				}
				eq += 2 + n
			}
			if eq < 0 {
				return nil, fail(fmt.Errorf("pred needs = body"))
			}
			pf, err := parseSpecFunc(rest[:eq] + " bool")
			if err != nil {
				return nil, fail(err)
			}
			body, err := parseExpr(rest[eq+1:])
			if err != nil {
				return nil, fail(err)
			}
			pf.Body = body
			pf.Src = rest[eq+1:]
			sf.Preds = append(sf.Preds, pf)
			cur = nil
		case "globalinv":
			e, err := parseExpr(rest)
			if err != nil {
				return nil, fail(err)
			}
			sf.GlobalInv = append(sf.GlobalInv, &Clause{Kind: "globalinv", Tags: tags, Src: rest, E: e, Line: ll.L})
			cur = nil
		case "trusted":
			f := strings.SplitN(rest, " ", 2)
			t := TrustedOb{Glob: f[0]}
			if len(f) > 1 {
				t.Reason = strings.TrimSpace(f[1])
			}
			sf.Trusted = append(sf.Trusted, t)
			cur = nil
		case "axiom", "opaqueaxiom":
			i := strings.Index(rest, ":")
			if i < 0 {
				return nil, fail(fmt.Errorf("axiom needs name:"))
			}
			e, err := parseExpr(rest[i+1:])
			if err != nil {
				return nil, fail(err)
			}
			sf.Axioms = append(sf.Axioms, &Axiom{Name: strings.TrimSpace(rest[:i]), E: e, Src: rest[i+1:], Opaque: kwBase == "opaqueaxiom"})
			cur = nil
		case "contract":
			c := &Contract{Assumed: assumed, Line: ll.L, File: file}
			// key(params) — key may contain parens, e.g. (*state).validate(st, instance)
			lp := strings.LastIndex(rest, "(")
			if lp < 0 || !strings.HasSuffix(rest, ")") {
				c.Key = rest
			} else {
				c.Key = strings.TrimSpace(rest[:lp])
				ps := strings.TrimSpace(rest[lp+1 : len(rest)-1])
				if ps != "" {
					for _, p := range strings.Split(ps, ",") {
						c.Params = append(c.Params, strings.TrimSpace(p))
					}
				}
			}
			sf.Contracts = append(sf.Contracts, c)
			cur = c
			curLoop = nil
		case "loopinv":
			if cur == nil {
				return nil, fail(fmt.Errorf("loopinv outside contract"))
			}
			after := ""
			if m := afterRe.FindStringSubmatch(rest); m != nil {
				after = m[2]
				rest = m[1] + ":" + rest[len(m[0]):]
			}
			label, hasUses, uses, rest := splitLabel(rest)
			e, err := parseExpr(rest)
			if err != nil {
				return nil, fail(err)
			}
			cur.LoopInvs = append(cur.LoopInvs, &Clause{Kind: "invariant", Tags: tags, Src: rest, E: e, Name: label, Line: ll.L, HasUses: hasUses, Uses: uses, After: after})
			curLoop = nil
		case "requires", "ensures", "atreturn", "invariant", "decreases":
			if cur == nil {
				return nil, fail(fmt.Errorf("%s outside contract", kwBase))
			}
			label, hasUses, uses, rest := splitLabel(rest)
			e, err := parseExpr(rest)
			if err != nil {
				return nil, fail(err)
			}
			cl := &Clause{Kind: kwBase, Tags: tags, Src: rest, E: e, Name: label, Line: ll.L, HasUses: hasUses, Uses: uses}
			switch kwBase {
			case "requires":
				cur.PreOrder = append(cur.PreOrder, len(cur.Requires))
				cur.Requires = append(cur.Requires, cl)
			case "ensures":
				cur.Ensures = append(cur.Ensures, cl)
			case "atreturn":
				cur.AtReturn = append(cur.AtReturn, cl)
			case "invariant":
				if curLoop == nil {
					return nil, fail(fmt.Errorf("invariant outside loop"))
				}
				curLoop.Invariants = append(curLoop.Invariants, cl)
			case "decreases":
				if curLoop != nil {
					curLoop.Decreases = cl
				} else {
					cur.Decreases = cl
				}
			}
		case "let":
			if cur == nil {
				return nil, fail(fmt.Errorf("let outside contract"))
			}
			i := strings.Index(rest, "=")
			if i < 0 {
				return nil, fail(fmt.Errorf("let needs ="))
			}
			e, err := parseExpr(rest[i+1:])
			if err != nil {
				return nil, fail(err)
			}
			cur.PreOrder = append(cur.PreOrder, -(len(cur.Lets) + 1))
			cur.Lets = append(cur.Lets, struct {
				Name string
				E    Node
				Src  string
			}{strings.TrimSpace(rest[:i]), e, rest[i+1:]})
		case "modifies":
			if cur == nil {
				return nil, fail(fmt.Errorf("modifies outside contract"))
			}
			cur.HasMod = true
			for _, m := range strings.Split(rest, ",") {
				if m = strings.TrimSpace(m); m != "" {
					cur.Modifies = append(cur.Modifies, m)
				}
			}
		case "pure":
			if cur == nil {
				return nil, fail(fmt.Errorf("pure outside contract"))
			}
			cur.HasMod = true
		case "atline":
			// atline[tags] "text of the source line" label: cond
			if cur == nil || !strings.HasPrefix(rest, "\"") {
				return nil, fail(fmt.Errorf("atline \"text\" label: cond (inside a contract)"))
			}
			end := strings.Index(rest[1:], "\"")
			if end < 0 {
				return nil, fail(fmt.Errorf("atline: unterminated text"))
			}
			anchor := rest[1 : 1+end]
			label, hasUses, uses, body := splitLabel(strings.TrimSpace(rest[end+2:]))
			e, err := parseExpr(body)
			if err != nil {
				return nil, fail(err)
			}
			cur.AtLines = append(cur.AtLines, &Clause{Kind: "atline", Tags: tags, Src: body, E: e, Name: label, Line: ll.L, HasUses: hasUses, Uses: uses, Callee: anchor})
		case "atcall":
			// atcall[tags] "callee#n" label: cond
			if cur == nil || !strings.HasPrefix(rest, "\"") {
				return nil, fail(fmt.Errorf("atcall \"callee#n\" label: cond (inside a contract)"))
			}
			end := strings.Index(rest[1:], "\"")
			if end < 0 {
				return nil, fail(fmt.Errorf("atcall: unterminated callee"))
			}
			callee := rest[1 : 1+end]
			label, hasUses, uses, body := splitLabel(strings.TrimSpace(rest[end+2:]))
			e, err := parseExpr(body)
			if err != nil {
				return nil, fail(err)
			}
			cur.AtCalls = append(cur.AtCalls, &Clause{Kind: "atcall", Tags: tags, Src: body, E: e, Name: label, Line: ll.L, HasUses: hasUses, Uses: uses, Callee: callee})
		case "reveal":
			if cur == nil {
				return nil, fail(fmt.Errorf("reveal outside contract"))
			}
			for _, n := range strings.Split(rest, ",") {
				if n = strings.TrimSpace(n); n != "" {
					cur.Reveal = append(cur.Reveal, n)
				}
			}
		case "opaque":
			cur.Opaque = true
		case "fresh":
			cur.Fresh = append(cur.Fresh, strings.Fields(rest)...)
		case "reject":
			// reject[tags] "prefix" <expr>
			if cur == nil || !strings.HasPrefix(rest, "\"") {
				return nil, fail(fmt.Errorf("reject \"prefix\" <expr> inside a contract"))
			}
			j := strings.Index(rest[1:], "\"")
			if j < 0 {
				return nil, fail(fmt.Errorf("reject: unterminated prefix"))
			}
			prefix := rest[1 : 1+j]
			src := strings.TrimSpace(rest[j+2:])
			e, err := parseExpr(src)
			if err != nil {
				return nil, fail(err)
			}
			cur.Rejects = append(cur.Rejects, &Clause{Kind: "reject", Tags: tags, Src: src, E: e, Name: prefix, Line: ll.L})
			curLoop = nil
		case "exit":
			if curLoop == nil {
				return nil, fail(fmt.Errorf("exit outside loop"))
			}
			label, hasUses, uses, rest := splitLabel(rest)
			e, err := parseExpr(rest)
			if err != nil {
				return nil, fail(err)
			}
			curLoop.Exits = append(curLoop.Exits, &Clause{Kind: "exit", Tags: tags, Src: rest, E: e, Name: label, Line: ll.L, HasUses: hasUses, Uses: uses})
		case "noreads":
			// noreads Schema: Title, Description, ...
			i := strings.Index(rest, ":")
			if cur == nil || i < 0 {
				return nil, fail(fmt.Errorf("noreads <Type>: f1, f2 inside a contract"))
			}
			if cur.NoReads == nil {
				cur.NoReads = map[string][]string{}
			}
			tn := strings.TrimSpace(rest[:i])
			for _, f := range strings.Split(rest[i+1:], ",") {
				if f = strings.TrimSpace(f); f != "" {
					cur.NoReads[tn] = append(cur.NoReads[tn], f)
				}
			}
		case "isolated":
			cur.Isolated = append(cur.Isolated, strings.Fields(rest)...)
		case "noinline":
			cur.NoInline = true
		case "nilrecv":
			cur.NilRecv = true
		case "entry":
			cur.Entry = true
		case "noframe":
			cur.NoFrame = true
		case "tags":
			for _, t := range strings.Split(rest, ",") {
				cur.Tags = append(cur.Tags, strings.TrimSpace(t))
			}
		case "loop":
			if cur == nil {
				return nil, fail(fmt.Errorf("loop outside contract"))
			}
			key := strings.Trim(rest, "\"")
			curLoop = &LoopSpec{Key: key, Line: ll.L}
			cur.Loops = append(cur.Loops, curLoop)
		case "endloop":
			curLoop = nil
		case "iterator":
			// iterator yields (k string, v RV) where expr
			r := strings.TrimPrefix(rest, "yields")
			r = strings.TrimSpace(r)
			if !strings.HasPrefix(r, "(") {
				return nil, fail(fmt.Errorf("iterator yields (...) where ..."))
			}
			end := strings.Index(r, ")")
			var vars []QVar
			for _, p := range strings.Split(r[1:end], ",") {
				f := strings.Fields(p)
				if len(f) != 2 {
					return nil, fail(fmt.Errorf("bad yield var %q", p))
				}
				vars = append(vars, QVar{f[0], f[1]})
			}
			wh := strings.TrimSpace(r[end+1:])
			wh = strings.TrimSpace(strings.TrimPrefix(wh, "where"))
			e, err := parseExpr(wh)
			if err != nil {
				return nil, fail(err)
			}
			cur.Iter = &IterSpec{Vars: vars, Where: &Clause{Kind: "where", Src: wh, E: e, Line: ll.L}}
		default:
			return nil, fail(fmt.Errorf("unknown directive %q", kw))
		}
	}
	return sf, nil
}

func isIdentLike(s string) bool {
	if s == "" {
		return false
	}
	for _, r := range s {
		if !(unicode.IsLetter(r) || unicode.IsDigit(r) || r == '_' || r == '-' || r == '/') {
			return false
		}
	}
	return true
}

func parseSpecFunc(rest string) (*SpecFunc, error) {
	// name(p sort, ...) sort [= expr]
	lp := strings.Index(rest, "(")
	if lp < 0 {
		return nil, fmt.Errorf("func needs (")
	}
	name := strings.TrimSpace(rest[:lp])
	depth := 0
	rp := -1
	for i := lp; i < len(rest); i++ {
		if rest[i] == '(' {
			depth++
		} else if rest[i] == ')' {
			depth--
			if depth == 0 {
				rp = i
				break
			}
		}
	}
	if rp < 0 {
		return nil, fmt.Errorf("func: unbalanced parens")
	}
	f := &SpecFunc{Name: name}
	ps := strings.TrimSpace(rest[lp+1 : rp])
	if ps != "" {
		for _, p := range splitTop(ps, ',') {
			fs := strings.Fields(strings.TrimSpace(p))
			if len(fs) != 2 {
				return nil, fmt.Errorf("bad param %q", p)
			}
			f.Params = append(f.Params, QVar{fs[0], fs[1]})
		}
	}
	tail := strings.TrimSpace(rest[rp+1:])
	if i := strings.Index(tail, "="); i >= 0 && !strings.HasPrefix(tail[i:], "==") {
		f.Ret = strings.TrimSpace(tail[:i])
		f.Src = strings.TrimSpace(tail[i+1:])
		e, err := parseExpr(f.Src)
		if err != nil {
			return nil, err
		}
		f.Body = e
	} else {
		f.Ret = tail
	}
	return f, nil
}

// splitTop splits on sep outside <> and ().
func splitTop(s string, sep byte) []string {
	var out []string
	depth := 0
	start := 0
	for i := 0; i < len(s); i++ {
		switch s[i] {
		case '<', '(':
			depth++
		case '>', ')':
			depth--
		}
		if s[i] == sep && depth == 0 {
			out = append(out, s[start:i])
			start = i + 1
		}
	}
	out = append(out, s[start:])
	return out
}
