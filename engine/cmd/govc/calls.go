package main

import (
	"os"
	"fmt"
	"go/token"
	"go/types"
	"strings"

	"golang.org/x/tools/go/ssa"
)

type phiRec struct {
	phi  *ssa.Phi
	cell *MVar
}

type deferSite struct {
	fr    *Frame
	entry *ILBlock
	exit  *ILBlock
}

// ---- returns / defers ----

func (tr *Trans) ret(fr *Frame, x *ssa.Return) {
	if fr.yieldOf != nil {
		// inlined range-over-func body: true -> next iteration, false -> leave the loop
		c := tr.expr(tr.val(fr, x.Results[0]))
		tr.cur.edge(fr.yieldOf.head, c)
		tr.cur.edge(fr.yieldOf.after, "(not "+c+")")
		fr.exitOf[x.Block()] = tr.cur
		tr.cur = nil
		return
	}
	if fr.parent != nil || fr.retTo != nil {
		for i, r := range x.Results {
			if i < len(fr.retVals) {
				tr.cur.assign(fr.retVals[i], tr.expr(tr.val(fr, r)))
			}
		}
		tr.cur.edge(fr.retTo, "true")
		fr.exitOf[x.Block()] = tr.cur
		tr.cur = nil
		return
	}
	// top-level return: check postconditions
	sc := tr.scope.child()
	for i, r := range x.Results {
		v := tr.val(fr, r)
		te := TExpr{E: tr.expr(v), Sort: tr.sortOf(r.Type()).Sort, GoT: r.Type()}
		sc.vars[fmt.Sprintf("result%d", i)] = te
		if len(x.Results) == 1 {
			sc.vars["result"] = te
		}
		if res := fr.fn.Signature.Results(); res != nil && i < res.Len() && res.At(i).Name() != "" && res.At(i).Name() != "_" {
			sc.vars[res.At(i).Name()] = te
		}
	}
	if tr.name == "init" {
		for i, cl := range tr.eng.globalInv {
			te, err := sc.elab(cl.E)
			if err != nil {
				continue
			}
			tr.cur.assert(te.E, tr.ob("globalinv", fmt.Sprint(i), x.Pos(), cl.Src, cl.Tags))
		}
	}
	if tr.contract != nil && (len(tr.contract.Ensures) > 0 || len(tr.contract.AtReturn) > 0) {
		// reachability of this return under everything assumed on the way (vacuity guard)
		cov := tr.ob("cover", "return", x.Pos(), "this return is reachable under the assumptions made on the way", tr.eng.propsFor(tr.name, "cover"))
		cov.Cover = true
		tr.cur.assert("true", cov)
	}
	if tr.contract != nil {
		for i, cl := range tr.contract.Ensures {
			te, err := sc.elab(cl.E)
			if err != nil {
				tr.eng.fatal("%s:%d: ensures %q: %v", tr.contract.File, cl.Line, cl.Src, err)
				continue
			}
			anchor := fmt.Sprintf("%d", i)
			if cl.Name != "" {
				anchor = cl.Name
			}
			props := cl.Tags
			if len(props) == 0 {
				props = tr.contract.Tags
			}
			tr.cur.assert(te.E, tr.restrict(tr.ob("post", anchor, x.Pos(), cl.Src, props), cl))
		}
		if len(tr.contract.AtReturn) > 0 && x.Pos().IsValid() {
			// (the position-less return of the synthetic recover block is not a return of the source program)
			// clauses over the locals as they are at this return (a local declared further down has its zero value)
			ps := tr.pointScope(fr, x.Pos())
			tr.zeroLaterLocals(ps, fr, x.Pos())
			for k, v := range sc.vars {
				if strings.HasPrefix(k, "result") {
					ps.vars[k] = v
				}
			}
			for _, cl := range tr.contract.AtReturn {
				te, err := ps.elab(cl.E)
				if err != nil {
					tr.eng.fatal("%s:%d: atreturn %q: %v", tr.contract.File, cl.Line, cl.Src, err)
					continue
				}
				props := cl.Tags
				if len(props) == 0 {
					props = tr.contract.Tags
				}
				tr.cur.assert(te.E, tr.restrict(tr.ob("atreturn", cl.Name, x.Pos(), cl.Src, props), cl))
			}
		}
	}
	tr.cur.assume("false")
	fr.exitOf[x.Block()] = tr.cur
	tr.cur = nil
}

func (tr *Trans) deferInstr(fr *Frame, x *ssa.Defer) {
	for _, d := range fr.defers {
		if d.call == x {
			tr.cur.assign(d.guard, "true")
			return
		}
	}
}

func (tr *Trans) runDefers(fr *Frame) {
	if len(fr.defers) == 0 {
		return
	}
	entry := tr.il.newBlock(fr.prefix + "defers.entry")
	exit := tr.il.newBlock(fr.prefix + "defers.exit")
	tr.cur.edge(entry, "true")
	tr.deferSites = append(tr.deferSites, &deferSite{fr: fr, entry: entry, exit: exit})
	tr.cur = exit
}

func (tr *Trans) expandDefers() {
	for i := 0; i < len(tr.deferSites); i++ { // may grow while inlining
		ds := tr.deferSites[i]
		tr.cur = ds.entry
		fr := ds.fr
		for j := len(fr.defers) - 1; j >= 0; j-- {
			d := fr.defers[j]
			body := tr.il.newBlock(fr.prefix + "defer.body")
			join := tr.il.newBlock(fr.prefix + "defer.join")
			tr.cur.edge(body, cur(d.guard))
			tr.cur.edge(join, "(not "+cur(d.guard)+")")
			tr.cur = body
			tr.call(fr, nil, &d.call.Call, d.call)
			if tr.cur != nil {
				tr.cur.edge(join, "true")
			}
			tr.cur = join
		}
		tr.cur.edge(ds.exit, "true")
	}
}

func (tr *Trans) finishPhis(fr *Frame) {
	for _, p := range fr.phis {
		for i, pred := range p.phi.Block().Preds {
			eb := fr.exitOf[pred]
			if eb == nil {
				continue
			}
			eb.assign(p.cell, tr.expr(tr.val(fr, p.phi.Edges[i])))
		}
	}
}

// ---- calls ----

func (tr *Trans) setResult(fr *Frame, res ssa.Value, vals []*Val) {
	if res == nil {
		return
	}
	switch len(vals) {
	case 0:
		fr.vals[res] = &Val{K: VTuple, T: res.Type()}
	case 1:
		fr.vals[res] = vals[0]
	default:
		fr.vals[res] = &Val{K: VTuple, T: res.Type(), Tuple: vals}
	}
}

func (tr *Trans) havocResults(hint string, sig *types.Signature) []*Val {
	var out []*Val
	for i := 0; i < sig.Results().Len(); i++ {
		t := sig.Results().At(i).Type()
		c := tr.freshConst(hint+"_r", tr.sortOf(t).Sort)
		v := &Val{K: VExpr, E: c, T: t}
		tr.typeFacts(v)
		out = append(out, v)
	}
	return out
}

func (tr *Trans) call(fr *Frame, res ssa.Value, c *ssa.CallCommon, site ssa.Instruction) {
	pos := site.Pos()
	sig := c.Signature()
	if c.IsInvoke() {
		recv := tr.val(fr, c.Value)
		key := fmt.Sprintf("(%s).%s", tr.eng.sorts.typeName(c.Value.Type()), c.Method.Name())
		args := []*Val{recv}
		for _, a := range c.Args {
			args = append(args, tr.val(fr, a))
		}
		if tr.sortOf(c.Value.Type()).Sort == "Any" {
			tr.assertSafe("(not (= "+tr.expr(recv)+" any_nil))", "nil-iface-call", pos, "method call on nil interface")
		}
		if ct := tr.eng.contracts[key]; ct != nil {
			tr.eng.usedContracts[key] = true
			tr.setResult(fr, res, tr.applyContract(ct, nil, args, sig, pos, key))
			return
		}
		tr.eng.noteDefault(key)
		tr.setResult(fr, res, tr.opaqueCall(key, args, sig, pos))
		return
	}
	if b, ok := c.Value.(*ssa.Builtin); ok {
		tr.builtin(fr, res, b, c, pos)
		return
	}
	fv := tr.val(fr, c.Value)
	var args []*Val
	for _, a := range c.Args {
		args = append(args, tr.val(fr, a))
	}
	switch fv.K {
	case VFunc, VClosure:
		if fv.K == VFunc && len(args) > 0 && args[0].ConstStr != nil && (fv.Fn.String() == "fmt.Errorf" || fv.Fn.String() == "errors.New") {
			tr.rejectAt(fr, *args[0].ConstStr, pos)
		}
		tr.callFunc(fr, res, fv.Fn, fv.Binds, args, sig, pos)
		return
	case VIterSeq:
		if len(args) == 1 && args[0].K == VClosure {
			tr.expandIterator(fr, fv, args[0], pos)
			tr.setResult(fr, res, nil)
			return
		}
	}
	// call of an unknown function value
	if len(args) == 1 && args[0].K == VClosure {
		// unknown iterator: the yield closure may be run any number of times with arbitrary arguments
		tr.expandIterator(fr, &Val{K: VIterSeq}, args[0], pos)
		tr.setResult(fr, res, nil)
		return
	}
	tr.nonNil(tr.expr(fv), pos, "call of nil function value")
	// A caller-supplied callback (e.g. ResolveOptions.Loader): like any external callee it is assumed to write only
	// through its pointer arguments (and its own state, which the package cannot observe); the objects this API
	// call has allocated and not handed to it are out of its reach.
	tr.atCall(fr, "fnval", args, pos)
	tr.note("call of unknown function value at %s: default external frame (writes only through its arguments)", tr.eng.fset.Position(pos))
	tr.eng.noteDefault("caller-supplied function value")
	tr.setResult(fr, res, tr.opaqueCall("fnval", args, sig, pos))
}

func (tr *Trans) callFunc(fr *Frame, res ssa.Value, fn *ssa.Function, binds []*Val, args []*Val, sig *types.Signature, pos token.Pos) {
	key := tr.eng.fnKey(fn)
	ct := tr.eng.contractFor(fn)
	inPkg := tr.eng.inTarget(fn)
	tr.curBinds = binds
	defer func() { tr.curBinds = nil }()
	tr.atCall(fr, key, args, pos)
	if inPkg && fn.Signature.Recv() != nil && len(args) > 0 && !(ct != nil && ct.NilRecv) {
		if _, ok := fn.Signature.Recv().Type().Underlying().(*types.Pointer); ok {
			tr.assertSafe("(not (= "+tr.expr(args[0])+" 0))", "nil-receiver", pos, "method "+key+" called on nil receiver")
		}
	}
	// iterator-returning functions
	if ct != nil && ct.Iter != nil {
		if len(ct.Requires) > 0 {
			tr.applyRequires(ct, fn, args, pos, key)
		}
		tr.setResult(fr, res, []*Val{{K: VIterSeq, IterC: ct, IterArgs: args, IterFn: fn, T: sig.Results().At(0).Type()}})
		return
	}
	if ct != nil {
		tr.eng.usedContracts[ct.Key] = true
		tr.setResult(fr, res, tr.applyContract(ct, fn, args, sig, pos, key))
		return
	}
	if inPkg {
		if fn.Parent() != nil && fn.Blocks != nil && fr.depth < 8 && !tr.onStack(fr, fn) && !tr.eng.isRecursiveClosure(fn) {
			tr.setResult(fr, res, tr.inline(fr, fn, binds, args, nil))
			return
		}
		if returnsIter(sig) {
			tr.setResult(fr, res, []*Val{{K: VIterSeq, IterArgs: args, IterFn: fn, T: sig.Results().At(0).Type()}})
			return
		}
		// default modular treatment: havoc the inferred write set
		if fn.Parent() != nil {
			tr.eng.opaqueUse[fn] = true
		}
		tr.eng.recordCall(tr.fn, fn)
		ws := tr.eng.writeSet(fn)
		if ws["*"] {
			tr.havocAll(pos)
		} else {
			for _, comp := range sortedKeys(ws) {
				tr.havocComp(comp, pos)
			}
		}
		tr.bumpAlloc()
		tr.setResult(fr, res, tr.havocResults(fn.Name(), sig))
		return
	}
	tr.eng.noteDefault(key)
	tr.setResult(fr, res, tr.opaqueCall(key, args, sig, pos))
}

func returnsIter(sig *types.Signature) bool {
	if sig.Results().Len() != 1 {
		return false
	}
	n, ok := sig.Results().At(0).Type().(*types.Named)
	if !ok {
		if a, ok2 := sig.Results().At(0).Type().(*types.Alias); ok2 {
			n, ok = types.Unalias(a).(*types.Named)
		}
	}
	return ok && n.Obj().Pkg() != nil && n.Obj().Pkg().Path() == "iter"
}

func (tr *Trans) onStack(fr *Frame, fn *ssa.Function) bool {
	for f := fr; f != nil; f = f.parent {
		if f.fn == fn {
			return true
		}
	}
	return false
}

// opaqueCall: external function without a contract. Assumed to write only through its pointer arguments.
func (tr *Trans) opaqueCall(key string, args []*Val, sig *types.Signature, pos token.Pos) []*Val {
	for _, a := range args {
		tr.havocPointee(a, pos)
	}
	tr.bumpAlloc()
	return tr.havocResults(key, sig)
}

func (tr *Trans) havocPointee(a *Val, pos token.Pos) {
	if a.Wrapped != nil {
		a = a.Wrapped
	}
	if a.K == VAddr {
		tr.havocAt(a.Addr, pos)
		return
	}
	if a.K == VExpr && a.T != nil {
		switch u := a.T.Underlying().(type) {
		case *types.Slice:
			comp, srt := tr.eng.sorts.elemComp(u.Elem())
			ref := "(s_arr " + a.E + ")"
			tr.checkWriteGuarded(comp, ref, "(not (= "+ref+" 0))", pos, comp)
			arr := tr.freshConst("hvarr", "(Array Int "+tr.sortOf(u.Elem()).Sort+")")
			tr.upd(comp, srt, ref, arr)
			return
		case *types.Map:
			mi := tr.eng.sorts.mapInfo(a.T)
			dc, ds := mi.domComp()
			vc, vs := mi.valComp()
			lc, ls := mi.lenComp()
			tr.checkWrite(dc, a.E, pos, "map "+mi.Name)
			tr.eng.recordWrite(tr.fn, vc)
			tr.eng.recordWrite(tr.fn, lc)
			d := tr.freshConst("hvdom", "(Array "+mi.KSort+" Bool)")
			vv := tr.freshConst("hvval", "(Array "+mi.KSort+" "+mi.VSort+")")
			ln := tr.freshConst("hvlen", "Int")
			tr.cur.assume("(>= " + ln + " 0)")
			tr.upd(dc, ds, a.E, d)
			tr.upd(vc, vs, a.E, vv)
			tr.upd(lc, ls, a.E, ln)
			return
		}
		if pt, ok := a.T.Underlying().(*types.Pointer); ok {
			if named, ok := pt.Elem().(*types.Named); ok && opaqueExternal[tr.eng.sorts.typeName(named)] {
				return
			}
			ad := tr.addrOf(a, a.T)
			// only if non-nil
			_ = ad
			tr.havocAt(ad, pos)
		}
	}
}

func (tr *Trans) bumpAlloc() {
	c := tr.freshConst("alloc", "Int")
	tr.cur.assume(fmt.Sprintf("(>= %s %s)", c, cur(tr.alloc)))
	tr.cur.assign(tr.alloc, c)
}

func (tr *Trans) havocComp(comp string, pos token.Pos) {
	v := tr.il.Vars[comp]
	if v == nil {
		srt := tr.eng.compSort(comp)
		if srt == "" {
			return // component never used by this function
		}
		v = tr.heapVar(comp, srt)
	}
	tr.eng.recordWrite(tr.fn, comp)
	tr.cur.havoc(v)
	if _, ok := tr.eng.ghost["BytesVal"]; ok && comp == "E_uint8" {
		tr.havocComp("BytesVal", pos)
	}
}

func (tr *Trans) havocAll(pos token.Pos) {
	tr.eng.recordWrite(tr.fn, "*")
	tr.cur.Stmts = append(tr.cur.Stmts, Stmt{K: SHavoc, V: nil}) // havoc-all marker, expanded before passification
	tr.bumpAlloc()
}

// ---- contracts ----

func (tr *Trans) paramNames(ct *Contract, fn *ssa.Function, n int) []string {
	if len(ct.Params) > 0 {
		return ct.Params
	}
	var names []string
	if fn != nil {
		for _, p := range fn.Params {
			names = append(names, p.Name())
		}
	}
	for len(names) < n {
		names = append(names, fmt.Sprintf("arg%d", len(names)))
	}
	return names
}

func (tr *Trans) callScope(ct *Contract, fn *ssa.Function, args []*Val) *Scope {
	sc := &Scope{vars: map[string]TExpr{}, eng: tr.eng, il: tr.il}
	// references the translation already knows to be new / old (constants only): the callee's clauses then
	// read the right heap directly instead of through an ite
	sc.known = map[string]byte{}
	for r := range tr.freshRefs {
		sc.known[r] = 'N'
	}
	for r := range tr.knownNew {
		sc.known[r] = 'N'
	}
	for r := range tr.knownOld {
		sc.known[r] = 'O'
	}
	names := tr.paramNames(ct, fn, len(args))
	for i, a := range args {
		if i >= len(names) {
			break
		}
		t := a.T
		sc.vars[names[i]] = TExpr{E: tr.expr(a), Sort: tr.sortOf(t).Sort, GoT: t}
	}
	// free variables of contracted closures: contents of the captured cells
	if fn != nil && len(fn.FreeVars) > 0 {
		for i, fv := range fn.FreeVars {
			if i >= len(tr.curBinds) || tr.curBinds[i] == nil {
				continue
			}
			b := tr.curBinds[i]
			et := fv.Type().(*types.Pointer).Elem()
			srt := tr.sortOf(et).Sort
			switch {
			case b.K == VAddr && b.Addr.K == RCell && len(b.Addr.Path) == 0:
				sc.vars[fv.Name()] = TExpr{E: cur(b.Addr.Var), Sort: srt, GoT: et, Var: b.Addr.Var}
			case b.K == VExpr:
				if _, isStruct := et.Underlying().(*types.Struct); isStruct && (strings.HasPrefix(srt, "S_") || tr.eng.isOpaque(et)) {
					sc.vars[fv.Name()] = TExpr{E: b.E, Sort: "Int", GoT: fv.Type()}
				} else {
					comp, csrt := tr.eng.sorts.cellComp(et)
					sc.vars[fv.Name()] = TExpr{E: b.E, Sort: srt, GoT: et, Cell: &CellRef{Comp: comp, Sort: csrt, Ref: b.E}}
				}
			}
		}
	}
	return sc
}

func (tr *Trans) applyRequires(ct *Contract, fn *ssa.Function, args []*Val, pos token.Pos, key string) {
	sc := tr.callScope(ct, fn, args)
	tr.callN[key]++
	tr.lastCallScope = sc
	reqIdx := map[int]bool{}
	for _, oi := range ct.PreOrder {
		if oi < 0 {
			l := ct.Lets[-oi-1]
			te, err := sc.elab(l.E)
			if err != nil {
				tr.eng.fatal("%s: let %s at call from %s: %v", ct.File, l.Name, tr.name, err)
				continue
			}
			c := tr.freshConst("let_"+l.Name, te.Sort)
			tr.cur.assume(fmt.Sprintf("(= %s %s)", c, te.E))
			sc.vars[l.Name] = TExpr{E: c, Sort: te.Sort, GoT: te.GoT, Old: te.Old}
			continue
		}
		reqIdx[oi] = true
		tr.oneRequire(ct, sc, oi, key, pos)
	}
	for i := range ct.Requires {
		if !reqIdx[i] {
			tr.oneRequire(ct, sc, i, key, pos)
		}
	}
}

func (tr *Trans) oneRequire(ct *Contract, sc *Scope, i int, key string, pos token.Pos) {
	{
		cl := ct.Requires[i]
		te, err := sc.elab(cl.E)
		if err != nil {
			tr.eng.fatal("%s:%d: requires %q at call from %s: %v", ct.File, cl.Line, cl.Src, tr.name, err)
			return
		}
		anchor := fmt.Sprintf("%s#%d.%d", key, tr.callN[key], i)
		if cl.Name != "" {
			anchor = fmt.Sprintf("%s#%d[%s]", key, tr.callN[key], cl.Name)
		}
		if tr.safety || len(cl.Tags) > 0 {
			tr.cur.assert(te.E, tr.ob("pre", anchor, pos, cl.Src, cl.Tags))
		} else {
			tr.cur.assume(te.E)
		}
		markOld(sc, cl.E)
	}
}

func (tr *Trans) applyContract(ct *Contract, fn *ssa.Function, args []*Val, sig *types.Signature, pos token.Pos, key string) []*Val {
	tr.applyRequires(ct, fn, args, pos, key)
	sc := tr.lastCallScope
	blk, at := tr.cur, len(tr.cur.Stmts)
	snaps := map[string]string{}
	var snapOrder []string
	snapFn := func(comp, sort string) string {
		if c, ok := snaps[comp]; ok {
			return c
		}
		v := tr.il.mvar(comp, sort)
		v.Comp = comp
		c := tr.freshConst("snap_"+comp, sort)
		snaps[comp] = c
		snapOrder = append(snapOrder, comp)
		return c
	}
	allocBefore := tr.freshConst("allocpre", "Int")
	tr.cur.assume(fmt.Sprintf("(= %s %s)", allocBefore, cur(tr.alloc)))
	// frame
	if fn != nil && tr.eng.inTarget(fn) {
		tr.eng.recordCall(tr.fn, fn)
	}
	tr.applyFrame(ct, fn, sc, args, pos, allocBefore)
	tr.bumpAlloc()
	// results
	results := tr.havocResults(key, sig)
	post := sc.child()
	post.oldHook = func(at *Scope, n *NOld) (TExpr, bool) {
		c := at.child()
		c.oldHook = nil
		c.heapFn = snapFn
		return c.el(n.X), true
	}
	post.vars["$allocbase"] = TExpr{E: allocBefore, Sort: "Int"}
	for i, r := range results {
		te := TExpr{E: r.E, Sort: tr.sortOf(r.T).Sort, GoT: r.T}
		post.vars[fmt.Sprintf("result%d", i)] = te
		if len(results) == 1 {
			post.vars["result"] = te
		}
		if sig.Results().At(i).Name() != "" && sig.Results().At(i).Name() != "_" {
			post.vars[sig.Results().At(i).Name()] = te
		}
	}
	for _, f := range ct.Fresh {
		if te, ok := post.lookup(f); ok {
			tr.cur.assume(fmt.Sprintf("(> %s %s)", refOf(te), allocBefore))
			tr.forgetObject(te, allocBefore, pos)
		}
	}
	for _, cl := range ct.Ensures {
		// Objects the postcondition declares fresh did not exist before the call: whatever the caller's heap
		// holds at those references is meaningless, so it is forgotten before the clause is assumed (otherwise a
		// clause such as "result.Not != nil && fresh(result.Not)" would contradict the unwritten heap).
		walk(cl.E, func(n Node) {
			c, ok := n.(*NCall)
			if !ok || c.Fn != "fresh" || len(c.Args) != 1 {
				return
			}
			if te, err := post.elab(c.Args[0]); err == nil {
				tr.forgetObject(te, allocBefore, pos)
			}
		})
		te, err := post.elab(cl.E)
		if err != nil {
			tr.eng.fatal("%s:%d: ensures %q at call from %s: %v", ct.File, cl.Line, cl.Src, tr.name, err)
			continue
		}
		tr.cur.assume(te.E)
	}
	// splice the pre-state snapshots in front of the frame havoc
	if len(snapOrder) > 0 {
		var ins []Stmt
		for _, comp := range snapOrder {
			ins = append(ins, Stmt{K: SAssume, E: fmt.Sprintf("(= %s %s)", snaps[comp], cur(tr.il.Vars[comp]))})
		}
		rest := append([]Stmt{}, blk.Stmts[at:]...)
		blk.Stmts = append(append(blk.Stmts[:at], ins...), rest...)
	}
	return results
}

// applyFrame havocs what the callee may modify (among the objects allocated during this API call;
// older objects are immutable by the modifies obligations every function carries).
func (tr *Trans) applyFrame(ct *Contract, fn *ssa.Function, sc *Scope, args []*Val, pos token.Pos, allocBefore string) {
	if ct.Opaque {
		tr.havocAll(pos)
		return
	}
	if !ct.HasMod {
		if fn != nil && tr.eng.inTarget(fn) {
			ws := tr.eng.writeSet(fn)
			if ws["*"] {
				tr.havocAll(pos)
				return
			}
			for _, comp := range sortedKeys(ws) {
				tr.havocComp(comp, pos)
			}
			return
		}
		// external with contract but no frame: writes only through pointer arguments
		for _, a := range args {
			tr.havocPointee(a, pos)
		}
		return
	}
	names := tr.paramNames(ct, fn, len(args))
	// pass 1: resolve every location in the pre-state
	type loc struct {
		comp, ref, guard string
		ghost           bool
	}
	var locs []loc
	var coarse []string
	var capturedVars []*MVar
	var pointees []int
	snap := func(e, sort string) string {
		c := tr.freshConst("loc", sort)
		tr.cur.assume(fmt.Sprintf("(= %s %s)", c, e))
		return c
	}
	for _, m := range ct.Modifies {
		switch {
		case strings.HasPrefix(m, "*"):
			pn := strings.TrimSpace(m[1:])
			for i, n := range names {
				if n == pn && i < len(args) {
					pointees = append(pointees, i)
				}
			}
		case strings.Contains(m, "[") && strings.HasSuffix(m, "]") && tr.eng.ghost[m[:strings.Index(m, "[")]] != "":
			g := m[:strings.Index(m, "[")]
			idx, err := parseExpr(m[strings.Index(m, "[")+1 : len(m)-1])
			if err != nil {
				tr.eng.fatal("%s: modifies %q: %v", ct.File, m, err)
				continue
			}
			it, err := sc.elab(idx)
			if err != nil {
				tr.eng.fatal("%s: modifies %q: %v", ct.File, m, err)
				continue
			}
			locs = append(locs, loc{comp: g, ref: snap(it.E, "Int"), guard: "true", ghost: true})
		case strings.Contains(m, "."):
			i := strings.LastIndex(m, ".")
			base, err := parseExpr(m[:i])
			if err != nil {
				tr.eng.fatal("%s: modifies %q: %v", ct.File, m, err)
				continue
			}
			bt, err := sc.elab(base)
			if err != nil {
				tr.eng.fatal("%s: modifies %q: %v", ct.File, m, err)
				continue
			}
			guard := snap(tr.derefGuard(sc, base, bt), "Bool")
			ref := snap(refOf(bt), "Int")
			for _, comp := range tr.eng.locComps(bt, m[i+1:]) {
				locs = append(locs, loc{comp: comp, ref: ref, guard: guard})
			}
		default:
			if te, ok := sc.vars[m]; ok && te.Cell != nil {
				// a captured variable of a contracted closure, living in a heap cell
				locs = append(locs, loc{comp: te.Cell.Comp, ref: snap(te.Cell.Ref, "Int"), guard: "true"})
			} else if ok && te.Var != nil {
				capturedVars = append(capturedVars, te.Var)
			} else {
				coarse = append(coarse, m)
			}
		}
	}
	for _, v := range capturedVars {
		tr.cur.havoc(v)
	}
	// pass 2: frame checks of the caller, then havoc
	for _, i := range pointees {
		tr.havocPointee(args[i], pos)
	}
	for _, l := range locs {
		srt := tr.eng.compSort(l.comp)
		if l.ghost {
			srt = tr.eng.ghost[l.comp]
		}
		hv := tr.heapVar(l.comp, srt)
		tr.eng.recordWrite(tr.fn, l.comp)
		parts := splitSortArgs(srt)
		fresh := tr.freshConst("mod_"+l.comp, parts[1])
		if m, ok := tr.eng.sorts.compMeta[l.comp]; ok && m.Nest == "" && !m.Dom {
			tr.typeFacts(&Val{K: VExpr, E: fresh, T: m.T})
		}
		// the caller must itself be entitled to have this location written
		if l.guard == "true" {
			tr.checkWrite(l.comp, l.ref, pos, "callee frame "+l.comp)
		} else {
			tr.checkWriteGuarded(l.comp, l.ref, l.guard, pos, "callee frame "+l.comp)
		}
		tr.cur.assign(hv, fmt.Sprintf("(ite %s (store %s %s %s) %s)", l.guard, cur(hv), l.ref, fresh, cur(hv)))
	}
	for _, m := range coarse {
		tr.havocComp(m, pos)
		if tr.checkMod && !tr.modCoarse[m] && !tr.modCoarse["*"] {
			tr.cur.assert("false", tr.ob("frame", "call:"+m, pos, "callee may write component "+m+" wholesale", tr.eng.propsFor(tr.name, "frame")))
		}
	}
}

// derefGuard: the location base.f exists only if every pointer dereferenced on the way is non-nil.
func (tr *Trans) derefGuard(sc *Scope, base Node, bt TExpr) string {
	var gs []string
	var rec func(n Node)
	rec = func(n Node) {
		if f, ok := n.(*NField); ok {
			rec(f.X)
			if te, err := sc.elab(f.X); err == nil && te.Sort == "Int" {
				gs = append(gs, "(not (= "+te.E+" 0))")
			}
		}
	}
	rec(base)
	gs = append(gs, "(not (= "+refOf(bt)+" 0))")
	return "(and " + strings.Join(gs, " ") + ")"
}

func walk(n Node, f func(Node)) {
	if n == nil {
		return
	}
	f(n)
	switch x := n.(type) {
	case *NUnary:
		walk(x.X, f)
	case *NBinary:
		walk(x.X, f)
		walk(x.Y, f)
	case *NField:
		walk(x.X, f)
	case *NIndex:
		walk(x.X, f)
		walk(x.I, f)
	case *NCall:
		for _, a := range x.Args {
			walk(a, f)
		}
	case *NOld:
		// do not descend: nested old is meaningless
	case *NQuant:
		walk(x.Body, f)
	case *NIte:
		walk(x.C, f)
		walk(x.A, f)
		walk(x.B, f)
	}
}

// ---- inlining ----

func (tr *Trans) inline(fr *Frame, fn *ssa.Function, binds []*Val, args []*Val, yield *iterExpansion) []*Val {
	tr.eng.inlinedFns[fn] = true
	nf := tr.newFrame(fn, fr)
	nf.binds = binds
	nf.params = args
	nf.yieldOf = yield
	tr.prepareDefers(nf)
	cont := tr.il.newBlock(nf.prefix + "cont")
	nf.retTo = cont
	sig := fn.Signature
	for i := 0; i < sig.Results().Len(); i++ {
		t := sig.Results().At(i).Type()
		nf.retVals = append(nf.retVals, tr.il.mvar(fmt.Sprintf("ret$%s%d", nf.prefix, i), tr.sortOf(t).Sort))
	}
	for _, d := range nf.defers {
		tr.cur.assign(d.guard, "false")
	}
	tr.cur.edge(nf.blocks[fn.Blocks[0]], "true")
	saved := tr.cur
	_ = saved
	tr.translateBody(nf)
	tr.finishPhis(nf)
	tr.frames = append(tr.frames, nf)
	tr.cur = cont
	if yield != nil {
		return nil
	}
	var out []*Val
	for i, rv := range nf.retVals {
		t := sig.Results().At(i).Type()
		c := tr.freshConst("inl_r", rv.Sort)
		tr.cur.assume(fmt.Sprintf("(= %s %s)", c, cur(rv)))
		out = append(out, &Val{K: VExpr, E: c, T: t})
	}
	return out
}

func (tr *Trans) prepareDefers(fr *Frame) {
	for _, b := range fr.fn.Blocks {
		for _, ins := range b.Instrs {
			if d, ok := ins.(*ssa.Defer); ok {
				g := tr.il.mvar(fmt.Sprintf("defer$%s%d", fr.prefix, len(fr.defers)), "Bool")
				fr.defers = append(fr.defers, &deferRec{guard: g, call: d, frame: fr})
			}
		}
	}
}

// ---- range-over-func ----

func (tr *Trans) expandIterator(fr *Frame, it *Val, yc *Val, pos token.Pos) {
	head := tr.il.newBlock("iter.head")
	after := tr.il.newBlock("iter.after")
	body := tr.il.newBlock("iter.body")
	done := tr.il.newBlock("iter.done")
	head.Owner, after.Owner, body.Owner, done.Owner = fr, fr, fr, fr
	yfn := yc.Fn
	head.PosList = append(head.PosList, int(yfn.Pos()))
	lo := &loopOrigin{frame: fr, kind: "rangefunc", pos: []token.Pos{yfn.Pos()}}
	tr.loopInfo[head] = lo
	// range-over-func protocol: the synthetic jump$N cell is 0 ("ready") whenever the iterator asks for the next element
	for i, fv := range yfn.FreeVars {
		if strings.HasPrefix(fv.Name(), "jump$") && i < len(yc.Binds) {
			b := yc.Binds[i]
			if b.K == VAddr && b.Addr.K == RCell {
				lo.jump = b.Addr.Var
			} else if b.K == VExpr {
				comp, srt := tr.eng.sorts.cellComp(fv.Type().(*types.Pointer).Elem())
				lo.jumpExpr = tr.sel(comp, srt, b.E)
				_ = srt
			}
		}
	}
	ysig := yfn.Signature
	// yielded values
	var ys []*Val
	for i := 0; i < ysig.Params().Len(); i++ {
		t := ysig.Params().At(i).Type()
		c := tr.freshConst("yield", tr.sortOf(t).Sort)
		ys = append(ys, &Val{K: VExpr, E: c, T: t})
	}
	var visited *MVar
	var whereE string
	var allDone string
	if it.IterC != nil && it.IterC.Iter != nil && len(ys) > 0 {
		spec := it.IterC.Iter
		sc := tr.callScope(it.IterC, it.IterFn, it.IterArgs)
		for i, qv := range spec.Vars {
			if i < len(ys) {
				sc.vars[qv.Name] = TExpr{E: ys[i].E, Sort: tr.sortOf(ys[i].T).Sort, GoT: ys[i].T}
			}
		}
		te, err := sc.elab(spec.Where.E)
		if err != nil {
			tr.eng.fatal("%s:%d: iterator where: %v", it.IterC.File, spec.Where.Line, err)
		} else {
			whereE = te.E
			ksort := tr.sortOf(ys[0].T).Sort
			visited = tr.il.mvar(fmt.Sprintf("visited$%s", tr.freshName("it")), "(Array "+ksort+" Bool)")
			tr.cur.assign(visited, "((as const (Array "+ksort+" Bool)) false)")
			tr.rangeSets = append(tr.rangeSets, visited)
			// completion: every element of the domain has been yielded (domain membership is existential over the other yielded values)
			q := tr.freshName("k")
			dom := strings.ReplaceAll(whereE, ys[0].E, q)
			if len(ys) > 1 {
				var bs []string
				for _, y := range ys[1:] {
					qq := tr.freshName("v")
					dom = strings.ReplaceAll(dom, y.E, qq)
					bs = append(bs, fmt.Sprintf("(%s %s)", qq, tr.sortOf(y.T).Sort))
				}
				dom = fmt.Sprintf("(exists (%s) %s)", strings.Join(bs, " "), dom)
			}
			// a second trigger: the first conjunct of the where-clause that mentions only the key (e.g. (rvhas v k)),
			// so that a membership fact about the ranged collection instantiates the completion fact as well
			pat2 := ""
			kOnly := strings.ReplaceAll(whereE, ys[0].E, q)
			for _, cj := range topConjuncts(kOnly) {
				ok := strings.Contains(cj, q) && !strings.Contains(cj, "(ite ") && strings.HasPrefix(cj, "(") && !strings.HasPrefix(cj, "(=") && !strings.HasPrefix(cj, "(not")
				for _, y := range ys[1:] {
					if strings.Contains(cj, y.E) {
						ok = false
					}
				}
				if ok {
					pat2 = " :pattern (" + cj + ")"
					break
				}
			}
			allDone = fmt.Sprintf("(forall ((%s %s)) (! (=> %s (select %s %s)) :pattern ((select %s %s))%s))", q, ksort, dom, cur(visited), q, cur(visited), q, pat2)
		}
	}
	tr.cur.edge(head, "true")
	head.edge(done, "true")
	head.edge(body, "true")
	if allDone != "" {
		done.assume(allDone)
	}
	done.edge(after, "true")
	tr.cur = body
	for _, y := range ys {
		tr.typeFacts(y)
	}
	if whereE != "" {
		body.assume(whereE)
		body.assume(fmt.Sprintf("(not (select %s %s))", cur(visited), ys[0].E))
		body.assign(visited, fmt.Sprintf("(store %s %s true)", cur(visited), ys[0].E))
	}
	if yfn.Blocks == nil || tr.onStack(fr, yfn) {
		tr.havocAll(pos)
		tr.cur.edge(head, "true")
		tr.cur.edge(after, "true")
	} else {
		tr.inline(fr, yfn, yc.Binds, ys, &iterExpansion{head: head, after: after})
		// the continuation block of a yield frame is unreachable
		tr.cur.assume("false")
	}
	tr.cur = after
}

// ---- builtins ----

func (tr *Trans) builtin(fr *Frame, res ssa.Value, b *ssa.Builtin, c *ssa.CallCommon, pos token.Pos) {
	var args []*Val
	for _, a := range c.Args {
		args = append(args, tr.val(fr, a))
	}
	switch b.Name() {
	case "len", "cap":
		a := args[0]
		e := tr.expr(a)
		switch u := c.Args[0].Type().Underlying().(type) {
		case *types.Slice:
			if b.Name() == "cap" {
				r := tr.defineHavoc(fr, res)
				tr.cur.assume(fmt.Sprintf("(>= %s (s_len %s))", r.E, e))
				return
			}
			tr.define(fr, res, "(s_len "+e+")")
		case *types.Basic:
			tr.define(fr, res, "(str.len "+e+")")
		case *types.Map:
			mi := tr.eng.sorts.mapInfo(c.Args[0].Type())
			lc, ls := mi.lenComp()
			r := tr.define(fr, res, tr.sel(lc, ls, e))
			tr.cur.assume("(>= " + r.E + " 0)")
		case *types.Pointer:
			if at, ok := u.Elem().Underlying().(*types.Array); ok {
				tr.define(fr, res, fmt.Sprint(at.Len()))
				return
			}
			tr.defineHavoc(fr, res)
		default:
			tr.defineHavoc(fr, res)
			tr.unsupported("len-of")
		}
	case "append":
		tr.appendBuiltin(fr, res, c, args, pos)
	case "delete":
		tr.mapDelete(c.Args[0].Type(), tr.expr(args[0]), tr.expr(args[1]), pos)
	case "min", "max":
		op := "<="
		if b.Name() == "max" {
			op = ">="
		}
		e := tr.expr(args[0])
		for _, a := range args[1:] {
			ae := tr.expr(a)
			e = fmt.Sprintf("(ite (%s %s %s) %s %s)", op, e, ae, e, ae)
		}
		tr.define(fr, res, e)
	case "ssa:deferstack", "ssa:wrapnilchk", "print", "println", "recover":
		if res != nil {
			if b.Name() == "ssa:wrapnilchk" {
				fr.vals[res] = args[0]
				return
			}
			tr.defineHavoc(fr, res)
		}
	case "copy":
		dst := args[0]
		if st, ok := c.Args[0].Type().Underlying().(*types.Slice); ok {
			comp, srt := tr.eng.sorts.elemComp(st.Elem())
			tr.checkWrite(comp, "(s_arr "+tr.expr(dst)+")", pos, comp)
			arr := tr.freshConst("copied", "(Array Int "+tr.sortOf(st.Elem()).Sort+")")
			tr.upd(comp, srt, "(s_arr "+tr.expr(dst)+")", arr)
		}
		if res != nil {
			tr.defineHavoc(fr, res)
		}
	case "real", "imag", "complex":
		if res != nil {
			tr.defineHavoc(fr, res)
		}
	default:
		if res != nil {
			tr.defineHavoc(fr, res)
		}
		tr.unsupported("builtin:" + b.Name())
	}
}

func (tr *Trans) appendBuiltin(fr *Frame, res ssa.Value, c *ssa.CallCommon, args []*Val, pos token.Pos) {
	st := c.Args[0].Type().Underlying().(*types.Slice)
	s := tr.expr(args[0])
	if len(args) < 2 {
		fr.vals[res] = args[0]
		return
	}
	comp, srt := tr.eng.sorts.elemComp(st.Elem())
	esort := tr.sortOf(st.Elem()).Sort
	// append may write into the spare capacity of s's backing array (capacity is not modelled):
	// that array must therefore be one the current API call owns (or s is nil).
	tr.checkWriteGuarded(comp, "(s_arr "+s+")", "(not (= (s_arr "+s+") 0))", pos, "backing array of the first argument of append")
	r := tr.newRef("append")
	arr := tr.freshConst("apparr", "(Array Int "+esort+")")
	var elen string
	if isString(c.Args[1].Type()) {
		// append([]byte, string...)
		elen = "(str.len " + tr.expr(args[1]) + ")"
	} else {
		e := tr.expr(args[1])
		elen = "(s_len " + e + ")"
		q := tr.freshName("j")
		esel := tr.sel(comp, srt, "(s_arr "+e+")")
		tr.cur.assume(fmt.Sprintf("(forall ((%s Int)) (! (=> (and (<= 0 %s) (< %s %s)) (= (select %s (+ (s_len %s) %s)) (select %s %s))) :pattern ((select %s %s))))",
			q, q, q, elen, arr, s, q, esel, q, esel, q))
		tr.cur.assume(fmt.Sprintf("(=> (>= %s 1) (= (select %s (s_len %s)) (select %s 0)))", elen, arr, s, esel))
	}
	q := tr.freshName("i")
	ssel := tr.sel(comp, srt, "(s_arr "+s+")")
	if strings.Contains(ssel, "(ite ") {
		// one ite-free copy fact per heap (old / current), each also triggered by a read of the source array
		hv := tr.heapVar(comp, srt)
		sarr := "(s_arr " + s + ")"
		for _, alt := range [][2]string{
			{fmt.Sprintf("(> %s epoch)", sarr), fmt.Sprintf("(select %s %s)", cur(hv), sarr)},
			{fmt.Sprintf("(<= %s epoch)", sarr), fmt.Sprintf("(select %s %s)", heapOldName(tr.il, comp, srt), sarr)},
		} {
			tr.cur.assume(fmt.Sprintf("(=> %s (forall ((%s Int)) (! (=> (and (<= 0 %s) (< %s (s_len %s))) (= (select %s %s) (select %s %s))) :pattern ((select %s %s)) :pattern ((select %s %s)))))",
				alt[0], q, q, q, s, arr, q, alt[1], q, arr, q, alt[1], q))
		}
	} else {
		tr.cur.assume(fmt.Sprintf("(forall ((%s Int)) (! (=> (and (<= 0 %s) (< %s (s_len %s))) (= (select %s %s) (select %s %s))) :pattern ((select %s %s)) :pattern ((select %s %s))))",
			q, q, q, s, arr, q, ssel, q, arr, q, ssel, q))
	}
	tr.upd(comp, srt, r, arr)
	tr.define(fr, res, fmt.Sprintf("(mk_slice %s (+ (s_len %s) %s))", r, s, elen))
}

// atCall: site obligations of the enclosing contract, `atcall "callee#n" label: cond` — at the n-th call of callee
// (in source order of translation; no "#n" = every call) the condition must hold over the locals visible there.
func (tr *Trans) atCall(fr *Frame, key string, args []*Val, pos token.Pos) {
	var ct *Contract
	for f := tr.fn; f != nil && ct == nil; f = f.Parent() {
		if c := tr.eng.contractFor(f); c != nil && len(c.AtCalls) > 0 {
			ct = c
		}
	}
	if ct == nil {
		return
	}
	if tr.atCallN == nil {
		tr.atCallN = map[string]int{}
	}
	tr.atCallN[key]++
	n := tr.atCallN[key]
	for _, cl := range ct.AtCalls {
		if cl.Callee != key && cl.Callee != fmt.Sprintf("%s#%d", key, n) {
			continue
		}
		cl.Used = true
		sc := tr.pointScope(fr, pos)
		for i, a := range args {
			if a != nil && a.T != nil && (a.K == VExpr) {
				sc.vars[fmt.Sprintf("$arg%d", i)] = TExpr{E: tr.expr(a), Sort: tr.sortOf(a.T).Sort, GoT: a.T}
			}
		}
		te, err := sc.elab(cl.E)
		if err != nil {
			tr.eng.fatal("%s:%d: atcall %q: %v", ct.File, cl.Line, cl.Callee, err)
			continue
		}
		props := cl.Tags
		if len(props) == 0 {
			props = ct.Tags
		}
		tr.cur.assert(te.E, tr.restrict(tr.ob("atcall", fmt.Sprintf("%s#%d[%s]", key, n, cl.Name), pos, cl.Src, props), cl))
	}
}

// forgetObject havocs the heap cells of the object te refers to (all fields of a struct, the elements of a
// slice, the entries of a map) if that object was allocated by the call, in the mutable heap only.
func (tr *Trans) forgetObject(te TExpr, allocBefore string, pos token.Pos) {
	if te.GoT == nil || os.Getenv("GOVC_NOFORGET") != "" {
		return
	}
	ref := tr.freshConst("freshref", "Int")
	var comps []string
	switch u := te.GoT.Underlying().(type) {
	case *types.Pointer:
		if _, ok := u.Elem().Underlying().(*types.Struct); ok {
			if tr.eng.isOpaque(u.Elem()) || !strings.HasPrefix(tr.sortOf(u.Elem()).Sort, "S_") {
				return
			}
			comps = tr.eng.locComps(te, "*")
		} else {
			comps = tr.eng.locComps(te, "val")
		}
		tr.cur.assume(fmt.Sprintf("(= %s %s)", ref, te.E))
	case *types.Map:
		comps = tr.eng.locComps(te, "entries")
		tr.cur.assume(fmt.Sprintf("(= %s %s)", ref, te.E))
	case *types.Slice:
		comps = tr.eng.locComps(te, "elems")
		tr.cur.assume(fmt.Sprintf("(= %s (s_arr %s))", ref, te.E))
	default:
		return
	}
	for _, comp := range comps {
		srt := tr.eng.compSort(comp)
		if srt == "" {
			continue
		}
		parts := splitSortArgs(srt)
		hv := tr.heapVar(comp, srt)
		fv := tr.freshConst("fresh_"+comp, parts[1])
		if m, ok := tr.eng.sorts.compMeta[comp]; ok && m.Nest == "" && !m.Dom {
			tr.typeFacts(&Val{K: VExpr, E: fv, T: m.T})
		}
		// only if the object really is new (the clause may mention fresh(x) under a disjunction)
		tr.cur.assign(hv, fmt.Sprintf("(ite (> %s %s) (store %s %s %s) %s)", ref, allocBefore, cur(hv), ref, fv, cur(hv)))
	}
}

// topConjuncts splits an SMT term of the form (and A B ...) into its top-level conjuncts (one level, recursively for
// nested ands); any other term is returned as it is.
func topConjuncts(e string) []string {
	e = strings.TrimSpace(e)
	if !strings.HasPrefix(e, "(and ") {
		return []string{e}
	}
	body := e[5 : len(e)-1]
	var out []string
	depth, start := 0, 0
	for i := 0; i < len(body); i++ {
		switch body[i] {
		case '(':
			depth++
		case ')':
			depth--
		case ' ':
			if depth == 0 {
				if t := strings.TrimSpace(body[start:i]); t != "" {
					out = append(out, topConjuncts(t)...)
				}
				start = i + 1
			}
		}
	}
	if t := strings.TrimSpace(body[start:]); t != "" {
		out = append(out, topConjuncts(t)...)
	}
	return out
}

// restrict: a clause that says "uses a,b" is proved from those labelled invariants only.
func (tr *Trans) restrict(ob *Obligation, cl *Clause) *Obligation {
	if cl.HasUses {
		ob.Restrict = true
		ob.Uses = cl.Uses
	}
	return ob
}

// rejectAt: the function is about to build an error whose message starts with a prefix that the contract
// associates with a condition (e.g. reject "minItems:" ...): the condition must hold here.
func (tr *Trans) rejectAt(fr *Frame, format string, pos token.Pos) {
	var ct *Contract
	for f := tr.fn; f != nil && ct == nil; f = f.Parent() {
		if c := tr.eng.contractFor(f); c != nil && len(c.Rejects) > 0 {
			ct = c
		}
	}
	if ct == nil {
		return
	}
	for _, cl := range ct.Rejects {
		if !strings.HasPrefix(format, cl.Name) {
			continue
		}
		cl.Used = true
		sc := tr.pointScope(fr, pos)
		te, err := sc.elab(cl.E)
		if err != nil {
			tr.eng.fatal("%s:%d: reject %q: %v", ct.File, cl.Line, cl.Name, err)
			continue
		}
		props := cl.Tags
		if len(props) == 0 {
			props = ct.Tags
		}
		tr.cur.assert(te.E, tr.ob("reject", strings.TrimSuffix(cl.Name, ":"), pos, cl.Src, props))
	}
}

// zeroLaterLocals binds the locals of fr's function that are declared after pos to their zero values.
func (tr *Trans) zeroLaterLocals(sc *Scope, fr *Frame, pos token.Pos) {
	// every named local of the function, whether or not its declaration has been translated yet
	for _, b := range fr.fn.Blocks {
		for _, ins := range b.Instrs {
			al, ok := ins.(*ssa.Alloc)
			if !ok || al.Comment == "" || strings.ContainsAny(al.Comment, "$.") || !al.Pos().IsValid() || al.Pos() <= pos {
				continue
			}
			if _, ok := sc.vars[al.Comment]; ok {
				continue
			}
			t := al.Type().(*types.Pointer).Elem()
			if _, isStruct := t.Underlying().(*types.Struct); isStruct && (al.Heap || tr.eng.isOpaque(t)) {
				// a struct variable that lives on the heap: the name denotes a pointer to it (nil before its declaration)
				sc.vars[al.Comment] = TExpr{E: "0", Sort: "Int", GoT: al.Type()}
				continue
			}
			si := tr.sortOf(t)
			sc.vars[al.Comment] = TExpr{E: si.Zero, Sort: si.Sort, GoT: t}
		}
	}
}

// pointScope: entry scope plus the locals visible at a source position in frame fr.
func (tr *Trans) pointScope(fr *Frame, pos token.Pos) *Scope {
	sc := tr.scope.child()
	visible := func(f *Frame) bool {
		for g := fr; g != nil; g = g.parent {
			if g == f {
				return true
			}
		}
		return false
	}
	for name, refs := range tr.localVar {
		var best *localRef
		for _, r := range refs {
			if !visible(r.frame) || r.pos > pos {
				continue
			}
			if best == nil || r.pos > best.pos || (r.pos == best.pos && r.frame.depth > best.frame.depth) {
				best = r
			}
		}
		if best == nil {
			continue
		}
		a := best.addr
		t := a.valueType()
		srt := tr.sortOf(t).Sort
		switch a.K {
		case RCell:
			if len(a.Path) == 0 {
				sc.vars[name] = TExpr{E: cur(a.Var), Sort: srt, GoT: t}
			}
		case RHeapCell:
			comp, csrt := tr.eng.sorts.cellComp(a.T)
			sc.vars[name] = TExpr{E: a.Ref, Sort: srt, GoT: t, Cell: &CellRef{Comp: comp, Sort: csrt, Ref: a.Ref}}
		case RWhole:
			sc.vars[name] = TExpr{E: a.Ref, Sort: "Int", GoT: types.NewPointer(a.StructT)}
		}
	}
	return sc
}
