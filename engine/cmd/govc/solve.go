package main

import (
	"bytes"
	"sync/atomic"
	"context"
	"fmt"
	"os"
	"os/exec"
	"path/filepath"
	"strings"
	"sync"
	"time"
)

type solverDef struct {
	name string
	args func(timeoutMs int) []string
	bin  string
}

var solvers = []solverDef{
	{name: "z3-5.1.0", bin: "z3-new", args: func(t int) []string { return []string{"-smt2", "-in", fmt.Sprintf("-t:%d", t)} }},
	{name: "z3-4.8.12", bin: "/usr/bin/z3", args: func(t int) []string { return []string{"-smt2", "-in", fmt.Sprintf("-t:%d", t)} }},
	{name: "cvc5-1.0", bin: "cvc5", args: func(t int) []string {
		return []string{"--lang=smt2", "--strings-exp", "--dt-nested-rec", fmt.Sprintf("--tlimit-per=%d", t)}
	}},
}

const smtHeader = "(set-option :produce-models true)\n(set-logic ALL)\n"

type SolveOpts struct {
	WorkDir   string
	Keep      bool
	TimeoutMs int
	Cross     bool // cross-check failures on the other solvers
	Batch     int
	KeepOb    string
	ExpectFail func(name string) bool // obligations recorded as open findings: decided with a short budget
}

var solveSem chan struct{}

// failBudget: once this many obligations of a run have failed, the remaining ones are not attempted
// (the check already has its answer; a broken tree would otherwise cost minutes of solver timeouts).
var failBudget int64 = 12
var failCount int64

func runSolver(s solverDef, input string, timeoutMs int) (string, float64, error) {
	return runSolverCtx(context.Background(), s, input, timeoutMs)
}

type raceResult struct {
	status string
	solver string
	secs   float64
	out    string
}

// race runs the primary z3 and cvc5 concurrently and returns the first definite "unsat"
// (cvc5 and z3 have very different strengths on these quantified goals); otherwise z3's answer.
func race(input string, timeoutMs int, add func(float64), which ...int) raceResult {
	ctx, cancel := context.WithCancel(context.Background())
	defer cancel()
	if len(which) == 0 {
		which = []int{0, 2}
	}
	ch := make(chan raceResult, len(which))
	for _, si := range which {
		s := solvers[si]
		go func() {
			out, secs, err := runSolverCtx(ctx, s, input, timeoutMs)
			add(secs)
			st := firstWord(out)
			if err != nil {
				st = "timeout"
			}
			ch <- raceResult{st, s.name, secs, out}
		}()
	}
	var first raceResult
	for i := 0; i < len(which); i++ {
		r := <-ch
		if r.status == "unsat" || (r.status == "sat" && r.solver == solvers[0].name) {
			return r
		}
		if i == 0 || r.solver == solvers[0].name {
			first = r
		}
	}
	return first
}

func runSolverCtx(parent context.Context, s solverDef, input string, timeoutMs int) (string, float64, error) {
	hard := time.Duration(timeoutMs+15000) * time.Millisecond
	ctx, cancel := context.WithTimeout(parent, hard)
	defer cancel()
	cmd := exec.CommandContext(ctx, s.bin, s.args(timeoutMs)...)
	cmd.Stdin = strings.NewReader(input)
	var out bytes.Buffer
	cmd.Stdout = &out
	cmd.Stderr = &out
	t0 := time.Now()
	err := cmd.Run()
	secs := time.Since(t0).Seconds()
	if ctx.Err() != nil {
		return out.String(), secs, fmt.Errorf("hard timeout")
	}
	_ = err // z3 4.8 exits 1 in some harmless situations; the output decides
	return out.String(), secs, nil
}

// solveFunc discharges the obligations of one function. Obligations are first tried in batches
// (one query proving a group of goals at once, restricted to the blocks that can reach them);
// members of a batch that is not proved are then decided one by one, racing the other solvers.
func solveFunc(key string, vs *VCSet, opts SolveOpts) float64 {
	if len(vs.Obs) == 0 {
		return 0
	}
	var mu sync.Mutex
	total := 0.0
	add := func(s float64) { mu.Lock(); total += s; mu.Unlock() }
	// Sort check of the whole verification condition with cvc5 (strict): z3 silently coerces Bool to Int,
	// so an ill-sorted term could otherwise turn into a wrong assumption. An ill-sorted VC proves nothing.
	{
		var sb strings.Builder
		sb.WriteString(smtHeader + vs.queryText(nil))
		for _, ob := range vs.Obs {
			sb.WriteString("(assert " + ob.Query + ")\n")
		}
		solveSem <- struct{}{}
		cmd := exec.Command("cvc5", "--lang=smt2", "--strings-exp", "--dt-nested-rec", "--parse-only")
		cmd.Stdin = strings.NewReader(sb.String())
		out, _ := cmd.CombinedOutput()
		<-solveSem
		if strings.Contains(string(out), "(error") {
			msg := firstLines(strings.TrimSpace(string(out)), 2)
			for _, ob := range vs.Obs {
				ob.Status, ob.Solver = "error: ill-sorted VC: "+msg, "cvc5-1.0"
			}
			return 0
		}
	}
	if opts.Keep {
		dir := filepath.Join(opts.WorkDir, sanitize(key))
		os.MkdirAll(dir, 0o755)
		os.WriteFile(filepath.Join(dir, "all.smt2"), []byte(smtHeader+vs.queryText(nil)), 0o644)
		var sb strings.Builder
		for i, ob := range vs.Obs {
			sb.WriteString(fmt.Sprintf("; ob %d %s block %d\n(assert %s)\n", i, ob.Name, ob.Block, ob.Query))
			if opts.KeepOb != "" && strings.Contains(ob.Name, opts.KeepOb) {
				os.WriteFile(filepath.Join(dir, fmt.Sprintf("ob%d.smt2", i)), []byte(smtHeader+vs.queryText([]*Obligation{ob})+"(check-sat)\n"), 0o644)
			}
		}
		os.WriteFile(filepath.Join(dir, "queries.smt2"), []byte(sb.String()), 0o644)
	}
	single := func(ob *Obligation) {
		solveSem <- struct{}{}
		defer func() { <-solveSem }()
		if !ob.Cover && atomic.LoadInt64(&failCount) >= failBudget {
			ob.Status, ob.Solver = "not-attempted", "-"
			return
		}
		defer func() {
			if !ob.Cover && ob.Status != "unsat" && ob.Status != "not-attempted" {
				atomic.AddInt64(&failCount, 1)
			}
		}()
		want := "unsat"
		if ob.Cover {
			want = "sat"
		}
		body := smtHeader + vs.queryText([]*Obligation{ob}) + "(check-sat)\n"
		if ob.Cover {
			// reachability only has to be "not refuted quickly"
			to := opts.TimeoutMs
			if to > 2000 {
				to = 2000
			}
			out, secs, err := runSolver(solvers[0], body, to)
			add(secs)
			st := firstWord(out)
			if err != nil {
				st = "timeout"
			}
			ob.Solver, ob.Secs = solvers[0].name, secs
			if st == "unsat" || strings.HasPrefix(st, "error") {
				ob.Status = st
			} else {
				ob.Status = "sat"
				if st != "sat" {
					ob.Solver += "(" + st + ")"
				}
			}
			return
		}
		if !ob.Cover {
			// obligations that were not proved as part of a batch get three times the budget
			budget := opts.TimeoutMs * 3
			if opts.ExpectFail != nil && opts.ExpectFail(ob.Name) {
				budget = 3000
			}
			r := race(body, budget, add, 0, 2, 1) // single obligations: all three solvers
			ob.Status, ob.Solver, ob.Secs = r.status, r.solver, r.secs
			if r.status == "unsat" {
				return
			}
			if r.status == "sat" {
				mo, _, _ := runSolver(solvers[0], body+"(get-model)\n", opts.TimeoutMs)
				ob.Model = mo
				return
			}
			if opts.Cross && !(opts.ExpectFail != nil && opts.ExpectFail(ob.Name)) {
				out, secs, err := runSolver(solvers[1], body, opts.TimeoutMs)
				add(secs)
				if err == nil && firstWord(out) == "unsat" {
					ob.Status, ob.Solver, ob.Secs = "unsat", solvers[1].name, secs
				}
			}
			return
		}
		order := []int{0, 1, 2}
		if !opts.Cross {
			order = []int{0}
		}
		for _, si := range order {
			s := solvers[si]
			out, secs, err := runSolver(s, body, opts.TimeoutMs)
			add(secs)
			st := firstWord(out)
			if err != nil {
				st = "timeout"
			}
			if st == want {
				ob.Status, ob.Solver, ob.Secs = st, s.name, secs
				return
			}
			if ob.Cover && st != "unsat" && !strings.HasPrefix(st, "error") {
				// reachability could not be refuted: not vacuous (quantified goals rarely yield "sat")
				ob.Status, ob.Solver, ob.Secs = "sat", s.name+"("+st+")", secs
				return
			}
			if si == 0 {
				ob.Status, ob.Solver, ob.Secs = st, s.name, secs
			}
			if st == "sat" && !ob.Cover {
				mo, _, _ := runSolver(s, body+"(get-model)\n", opts.TimeoutMs)
				ob.Model = mo
				ob.Status, ob.Solver = "sat", s.name
				return // a model is a definite answer; no need to ask the other solvers
			}
			if st == "unsat" && ob.Cover {
				return
			}
		}
	}
	var wg sync.WaitGroup
	var batch []*Obligation
	flush := func() {
		if len(batch) == 0 {
			return
		}
		obs := batch
		batch = nil
		wg.Add(1)
		go func() {
			defer wg.Done()
			if len(obs) > 1 {
				solveSem <- struct{}{}
				if atomic.LoadInt64(&failCount) >= failBudget {
					<-solveSem
					for _, ob := range obs {
						ob.Status, ob.Solver = "not-attempted", "-"
					}
					return
				}
				body := smtHeader + vs.queryText(obs) + "(check-sat)\n"
				r := race(body, opts.TimeoutMs, add)
				<-solveSem
				if r.status == "unsat" {
					for _, ob := range obs {
						ob.Status, ob.Solver, ob.Secs = "unsat", r.solver, r.secs/float64(len(obs))
					}
					return
				}
			}
			var wg2 sync.WaitGroup
			for _, ob := range obs {
				ob := ob
				wg2.Add(1)
				go func() { defer wg2.Done(); single(ob) }()
			}
			wg2.Wait()
		}()
	}
	bsize := opts.Batch
	if bsize <= 0 {
		bsize = 12
	}
	for _, ob := range vs.Obs {
		if ob.Cover || ob.Restrict {
			// (an obligation with its own set of hypotheses cannot share a query with others)
			ob := ob
			wg.Add(1)
			go func() { defer wg.Done(); single(ob) }()
			continue
		}
		batch = append(batch, ob)
		if len(batch) >= bsize {
			flush()
		}
	}
	flush()
	wg.Wait()
	// a handful of undecided obligations: decide them one at a time, without competing for the CPUs
	var undecided []*Obligation
	for _, ob := range vs.Obs {
		if !ob.Cover && (ob.Status == "unknown" || ob.Status == "timeout") && !(opts.ExpectFail != nil && opts.ExpectFail(ob.Name)) {
			undecided = append(undecided, ob)
		}
	}
	if len(undecided) > 0 && len(undecided) <= 6 {
		for _, ob := range undecided {
			body := smtHeader + vs.queryText([]*Obligation{ob}) + "(check-sat)\n"
			r := race(body, opts.TimeoutMs*6, add)
			if r.status == "unsat" {
				atomic.AddInt64(&failCount, -1)
				ob.Status, ob.Solver, ob.Secs = r.status, r.solver+"(retry)", r.secs
			}
		}
	}
	return total
}

func firstWord(out string) string {
	for _, ln := range strings.Split(out, "\n") {
		ln = strings.TrimSpace(ln)
		switch ln {
		case "sat", "unsat", "unknown", "timeout":
			return ln
		}
		if strings.HasPrefix(ln, "(error") {
			return "error: " + ln
		}
	}
	return "unknown"
}

func firstLines(s string, n int) string {
	ls := strings.Split(s, "\n")
	if len(ls) > n {
		ls = ls[:n]
	}
	return strings.Join(ls, "\n")
}
