package main

import (
	"bytes"
	"context"
	"fmt"
	"os"
	"os/exec"
	"path/filepath"
	"strings"
	"sync"
	"time"
)

type solverDef struct {
	name string
	args func(file string, timeoutMs int) []string
	bin  string
}

var solvers = []solverDef{
	{name: "z3-5.1.0", bin: "z3-new", args: func(f string, t int) []string { return []string{"-smt2", fmt.Sprintf("-t:%d", t), f} }},
	{name: "z3-4.8.12", bin: "/usr/bin/z3", args: func(f string, t int) []string { return []string{"-smt2", fmt.Sprintf("-t:%d", t), f} }},
	{name: "cvc5-1.0", bin: "cvc5", args: func(f string, t int) []string {
		return []string{"--lang=smt2", "--strings-exp", "--incremental", fmt.Sprintf("--tlimit-per=%d", t), f}
	}},
}

const smtHeader = "(set-option :produce-models true)\n(set-logic ALL)\n"

type SolveOpts struct {
	WorkDir   string
	TimeoutMs int
	Cross     bool // cross-check failures on the other solvers
	Chunk     int
	Par       int
}

var solveSem chan struct{}

func runSolver(s solverDef, file string, timeoutMs int, hard time.Duration) (string, float64, error) {
	ctx, cancel := context.WithTimeout(context.Background(), hard)
	defer cancel()
	cmd := exec.CommandContext(ctx, s.bin, s.args(file, timeoutMs)...)
	var out bytes.Buffer
	cmd.Stdout = &out
	cmd.Stderr = &out
	t0 := time.Now()
	err := cmd.Run()
	secs := time.Since(t0).Seconds()
	if ctx.Err() != nil {
		return out.String(), secs, fmt.Errorf("hard timeout")
	}
	_ = err // z3 4.8 exits 1 in some harmless situations; the output decides
	return out.String(), secs, nil
}

// solveFunc discharges the obligations of one function.
func solveFunc(key string, vs *VCSet, opts SolveOpts) float64 {
	if len(vs.Obs) == 0 {
		return 0
	}
	dir := filepath.Join(opts.WorkDir, sanitize(key))
	os.MkdirAll(dir, 0o755)
	chunk := opts.Chunk
	if chunk <= 0 {
		chunk = 40
	}
	var wg sync.WaitGroup
	var mu sync.Mutex
	total := 0.0
	for start := 0; start < len(vs.Obs); start += chunk {
		end := start + chunk
		if end > len(vs.Obs) {
			end = len(vs.Obs)
		}
		obs := vs.Obs[start:end]
		ci := start / chunk
		wg.Add(1)
		go func() {
			defer wg.Done()
			solveSem <- struct{}{}
			defer func() { <-solveSem }()
			var sb strings.Builder
			sb.WriteString(smtHeader)
			sb.WriteString(vs.Prelude)
			for i, ob := range obs {
				sb.WriteString(fmt.Sprintf("(echo \"ob %d\")\n(push 1)\n%s\n(check-sat)\n(pop 1)\n", i, ob.Query))
			}
			file := filepath.Join(dir, fmt.Sprintf("chunk%d.smt2", ci))
			os.WriteFile(file, []byte(sb.String()), 0o644)
			hard := time.Duration(opts.TimeoutMs*len(obs)+30000) * time.Millisecond
			out, secs, err := runSolver(solvers[0], file, opts.TimeoutMs, hard)
			mu.Lock()
			total += secs
			mu.Unlock()
			results := parseIncremental(out, len(obs))
			for i, ob := range obs {
				ob.Solver = solvers[0].name
				ob.Secs = secs / float64(len(obs))
				ob.Status = results[i]
				if err != nil && ob.Status == "" {
					ob.Status = "timeout"
				}
				if ob.Status == "" {
					ob.Status = "error"
					ob.Model = firstLines(out, 5)
				}
			}
		}()
	}
	wg.Wait()
	// individual re-runs for everything that is not in its expected state
	var wg2 sync.WaitGroup
	for i, ob := range vs.Obs {
		want := "unsat"
		if ob.Cover {
			want = "sat"
		}
		if ob.Status == want {
			continue
		}
		i, ob := i, ob
		wg2.Add(1)
		go func() {
			defer wg2.Done()
			solveSem <- struct{}{}
			defer func() { <-solveSem }()
			file := filepath.Join(dir, fmt.Sprintf("ob%d.smt2", i))
			body := smtHeader + vs.Prelude + ob.Query + "\n(check-sat)\n"
			os.WriteFile(file, []byte(body), 0o644)
			order := []int{0, 1, 2}
			if !opts.Cross {
				order = []int{0}
			}
			for _, si := range order {
				s := solvers[si]
				out, secs, err := runSolver(s, file, opts.TimeoutMs, time.Duration(opts.TimeoutMs+15000)*time.Millisecond)
				mu.Lock()
				total += secs
				mu.Unlock()
				st := firstWord(out)
				if err != nil {
					st = "timeout"
				}
				if st == want {
					ob.Status, ob.Solver, ob.Secs = st, s.name, secs
					return
				}
				if si == 0 {
					ob.Status, ob.Secs = st, secs
				}
				if st == "sat" && !ob.Cover && ob.Model == "" {
					// fetch a model from this solver
					mfile := filepath.Join(dir, fmt.Sprintf("ob%d.model.smt2", i))
					os.WriteFile(mfile, []byte(body+"(get-model)\n"), 0o644)
					mo, _, _ := runSolver(s, mfile, opts.TimeoutMs, time.Duration(opts.TimeoutMs+15000)*time.Millisecond)
					ob.Model = mo
					ob.Status, ob.Solver = "sat", s.name
				}
			}
		}()
	}
	wg2.Wait()
	return total
}

func parseIncremental(out string, n int) []string {
	res := make([]string, n)
	cur := -1
	for _, ln := range strings.Split(out, "\n") {
		ln = strings.TrimSpace(ln)
		if strings.HasPrefix(ln, "ob ") || strings.HasPrefix(ln, "\"ob ") {
			fmt.Sscanf(strings.Trim(ln, "\""), "ob %d", &cur)
			continue
		}
		if cur >= 0 && cur < n && res[cur] == "" {
			switch ln {
			case "sat", "unsat", "unknown", "timeout":
				res[cur] = ln
			default:
				if strings.HasPrefix(ln, "(error") {
					res[cur] = "error: " + ln
				}
			}
		}
	}
	return res
}

func firstWord(out string) string {
	for _, ln := range strings.Split(out, "\n") {
		ln = strings.TrimSpace(ln)
		switch ln {
		case "sat", "unsat", "unknown", "timeout":
			return ln
		}
		if strings.HasPrefix(ln, "(error") {
			return "error: " + ln
		}
	}
	return "unknown"
}

func firstLines(s string, n int) string {
	ls := strings.Split(s, "\n")
	if len(ls) > n {
		ls = ls[:n]
	}
	return strings.Join(ls, "\n")
}
