package main

func runCheck(e *Engine, args []string, tier string, timeout int, verif string) int { return 2 }
