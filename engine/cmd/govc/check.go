package main

// govc check <property>: run every obligation that serves the property on the current /repo tree,
// report known findings / violations, write /verif/evidence/<id>.json.

import (
	"encoding/json"
	"fmt"
	"os"
	"os/exec"
	"path/filepath"
	"sort"
	"strconv"
	"strings"
	"time"

	"golang.org/x/tools/go/ssa"
)

type Finding struct {
	Property    string   `json:"property"`
	Status      string   `json:"status"` // open | fixed
	Obligations []string `json:"obligations"` // obligation name globs ('*' suffix allowed)
	What        string   `json:"what"`
	Witness     string   `json:"witness,omitempty"`
	Replay      string   `json:"replay,omitempty"` // replay recipe (go test name) demonstrating it on the real code
	Commit      string   `json:"commit,omitempty"`
}

type FindingsFile struct {
	Findings []Finding `json:"findings"`
}

type Evidence struct {
	PropertyID  string         `json:"property_id"`
	Tier        string         `json:"tier"`
	Seed        int            `json:"seed"`
	Level       string         `json:"level"`
	Coverage    map[string]any `json:"coverage"`
	Assumptions []string       `json:"assumptions"`
	WallS       float64        `json:"wall_s"`
	Violations  int            `json:"violations"`
}

func loadFindings(verif string) *FindingsFile {
	ff := &FindingsFile{}
	b, err := os.ReadFile(filepath.Join(verif, "known_findings.json"))
	if err != nil {
		return ff
	}
	if err := json.Unmarshal(b, ff); err != nil {
		fmt.Fprintln(os.Stderr, "govc: known_findings.json:", err)
		os.Exit(2)
	}
	return ff
}

func obMatches(globs []string, name string) bool {
	for _, g := range globs {
		if globMatch(g, name) {
			return true
		}
	}
	return false
}

func hasProp(props []string, p string) bool {
	for _, x := range props {
		if x == p {
			return true
		}
	}
	return false
}

// funcsForProperty: functions that may carry obligations tagged with the property.
func (e *Engine) funcsForProperty(prop string) []*ssa.Function {
	var out []*ssa.Function
	for _, fn := range e.allFns {
		key := e.keys[fn]
		if e.skipStandalone(fn) {
			continue
		}
		match := false
		for _, r := range e.propRules {
			if hasProp(r.props, prop) && globMatch(r.fnGlob, key) {
				match = true
			}
		}
		if ct := e.contractFor(fn); ct != nil && !match {
			if hasProp(ct.Tags, prop) {
				match = true
			}
			for _, cl := range ct.Ensures {
				if hasProp(cl.Tags, prop) {
					match = true
				}
			}
			for _, cl := range ct.Requires {
				if hasProp(cl.Tags, prop) {
					match = true
				}
			}
			for _, cl := range ct.AtReturn {
				if hasProp(cl.Tags, prop) {
					match = true
				}
			}
			for _, cl := range ct.Rejects {
				if hasProp(cl.Tags, prop) {
					match = true
				}
			}
			for _, cl := range ct.AtCalls {
				if hasProp(cl.Tags, prop) {
					match = true
				}
			}
			for _, cl := range ct.AtLines {
				if hasProp(cl.Tags, prop) {
					match = true
				}
			}
			for _, cl := range ct.LoopInvs {
				if hasProp(cl.Tags, prop) {
					match = true
				}
			}
			for _, l := range ct.Loops {
				for _, cl := range l.Invariants {
					if hasProp(cl.Tags, prop) {
						match = true
					}
				}
				for _, cl := range l.Exits {
					if hasProp(cl.Tags, prop) {
						match = true
					}
				}
			}
		}
		if match {
			out = append(out, fn)
		}
	}
	return out
}

func runCheck(e *Engine, args []string, tier string, timeout int, verif string) int {
	if len(args) < 1 {
		fmt.Fprintln(os.Stderr, "usage: govc check [flags] <property-id>")
		return 2
	}
	prop := args[0]
	if t := os.Getenv("VERIF_TIER"); t != "" {
		tier = t
	}
	seed := 0
	if s := os.Getenv("VERIF_SEED"); s != "" {
		seed, _ = strconv.Atoi(s)
	}
	t0 := time.Now()
	e.scan()
	fns := e.funcsForProperty(prop)
	if len(fns) == 0 {
		fmt.Fprintf(os.Stderr, "govc: no function carries obligations for %s\n", prop)
		return 2
	}
	opts := SolveOpts{WorkDir: workDir, TimeoutMs: timeout, Cross: true, Batch: 12}
	if tier == "thorough" {
		opts.TimeoutMs = timeout * 6
		opts.Batch = 6
	}
	ff := loadFindings(verif)
	opts.ExpectFail = func(name string) bool {
		for _, f := range ff.Findings {
			if f.Status == "open" && f.Property == prop && obMatches(f.Obligations, name) {
				return true
			}
		}
		return false
	}
	// Loop invariants are assumed at loop heads by every other obligation of the function. Invariants tagged
	// with the property are always part of its check; the untagged ones (function-wide safety invariants) are
	// checked by the C10 quick check on every change and, in the thorough tier, by every property's own check.
	rr := e.verifyFuncs(fns, opts, func(ob *Obligation) bool {
		if hasProp(ob.Props, prop) || ob.Kind == "cover" {
			return true
		}
		// a tag "Cxx:t" puts a clause into the thorough tier of Cxx only (obligations whose proofs take tens of
		// seconds when the machine is loaded; in the quick tier they are assumed like any other invariant)
		if tier == "thorough" && hasProp(ob.Props, prop+":t") {
			return true
		}
		return tier == "thorough" && (ob.Kind == "inv-init" || ob.Kind == "inv-pres")
	})
	var clauseDrift []string
	if len(e.errors) > 0 {
		// A clause of the in-repo contract file that no longer elaborates against the code (a local variable,
		// field or loop it names is gone) is contract drift: the code changed under its contract, nothing is
		// proved about the function any more. That is reported as a violation without an input. Errors in the
		// specification library itself are engine errors.
		var driftMsgs []string
		other := false
		seen := map[string]bool{}
		for _, m := range e.errors {
			if seen[m] {
				continue
			}
			seen[m] = true
			if strings.Contains(m, "contracts_verif.go:") {
				driftMsgs = append(driftMsgs, m)
			} else {
				other = true
				fmt.Println("ENGINE-ERROR:", m)
			}
		}
		if other {
			return 2
		}
		clauseDrift = driftMsgs
	}
	nOb, nOK := 0, 0
	perSolver := map[string]int{}
	solverSecs := 0.0
	var failed []*Obligation
	var funcsUnder []string
	var samples []any
	var drift []string
	trusted := map[string]bool{}
	kindCount := map[string]int{}
	var unreachable []string
	type slowOb struct {
		name, solver string
		secs         float64
	}
	var slow []slowOb
	for _, fr := range rr.Funcs {
		if fr.Err != "" {
			drift = append(drift, fr.Key+": "+fr.Err)
			continue
		}
		n := 0
		nRet := 0
		var deadRet []string
		for _, ob := range fr.Obs {
			if ob.Kind == "cover" {
				if strings.Contains(ob.Name, "cover@return") {
					nRet++
					if ob.Status != "sat" {
						deadRet = append(deadRet, ob.Name+" "+ob.Pos)
					}
					continue
				}
				if ob.Status != "sat" {
					fmt.Printf("VACUOUS: %s: preconditions/axioms are contradictory (%s)\n", ob.Name, ob.Status)
					return 2
				}
				continue
			}
			n++
			nOb++
			kindCount[ob.Kind]++
			if ob.Status == "unsat" {
				nOK++
				perSolver[ob.Solver]++
				slow = append(slow, slowOb{ob.Name, ob.Solver, ob.Secs})
				if len(samples) < 6 && (ob.Kind == "post" || ob.Kind == "pre" || ob.Kind == "modifies" || ob.Kind == "inv-pres" || ob.Kind == "atcall" || ob.Kind == "atreturn" || ob.Kind == "reject" || ob.Kind == "exit" || ob.Kind == "reads" || ob.Kind == "fresh" || ob.Kind == "globalinv") {
					samples = append(samples, map[string]any{"obligation": ob.Name, "kind": ob.Kind, "at": ob.Pos, "clause": ob.Detail, "goal": trunc(ob.Query, 400), "solver": ob.Solver})
				}
			} else {
				failed = append(failed, ob)
			}
		}
		if nRet > 0 && len(deadRet) == nRet {
			fmt.Printf("VACUOUS: %s: no return of the function is reachable under its contract and the contracts of its callees\n", fr.Key)
			return 2
		}
		unreachable = append(unreachable, deadRet...)
		solverSecs += fr.SolveSec
		if n > 0 {
			funcsUnder = append(funcsUnder, fmt.Sprintf("%s (%d obligations)", fr.Key, n))
		}
		for _, t := range fr.Trusted {
			trusted[t] = true
		}
	}
	// triage
	violations := 0
	printedKnown := map[string]bool{}
	os.MkdirAll(filepath.Join(verif, "replays"), 0o755)
	for _, d := range drift {
		fmt.Printf("CONTRACT-DRIFT: %s\n", d)
	}
	reported := map[string]int{}
	skipped := 0
	var knownObs []string
	for _, ob := range failed {
		if ob.Status == "not-attempted" {
			skipped++
			continue
		}
		known := false
		for i, f := range ff.Findings {
			if f.Status == "open" && f.Property == prop && obMatches(f.Obligations, ob.Name) {
				known = true
				if !printedKnown[strconv.Itoa(i)] {
					printedKnown[strconv.Itoa(i)] = true
					fmt.Printf("KNOWN-FINDING: property=%s %s\n", prop, f.What)
				}
			}
		}
		if known {
			nOb-- // obligations of recorded findings are reported separately, not claimed
			knownObs = append(knownObs, ob.Name)
			continue
		}
		violations++
		group := ob.Name
		if i := strings.LastIndex(group, "#"); i > 0 {
			group = group[:i]
		}
		reported[group]++
		if reported[group] > 2 {
			continue // same clause failing at further return / call sites: counted, not listed again
		}
		path := writeReplay(e, verif, prop, ob)
		suffix := ""
		if !replayConfirms(e, verif, ob, path) {
			suffix = " no-failing-input-found"
		}
		fmt.Printf("VIOLATION property=%s replay=%s obligation=%s status=%s%s\n", prop, path, ob.Name, ob.Status, suffix)
	}
	if skipped > 0 && violations > 0 {
		fmt.Printf("NOTE: %d further obligations were not attempted after %d failures\n", skipped, violations)
	}
	if skipped > 0 && violations == 0 {
		// only known findings failed, but the budget was exhausted: rerun without the budget is needed
		fmt.Printf("ENGINE-ERROR: failure budget exhausted by known findings; %d obligations not attempted\n", skipped)
		return 2
	}
	drift = append(drift, clauseDrift...)
	if len(drift) > 0 {
		// a contract no longer binds to the code (a loop, local variable or field it names is gone): nothing is
		// proved about that function any more. Reported as a violation without an input, in addition to whatever
		// obligations could still be generated and failed.
		violations++
		path := filepath.Join(verif, "replays", prop+"-drift.json")
		b, _ := json.MarshalIndent(map[string]any{"property": prop, "kind": "contract-drift",
			"explanation": "clauses of /repo/jsonschema/contracts_verif.go no longer bind to the code of functions under this property; their obligations cannot be generated, so nothing is established by them",
			"drift": drift}, "", " ")
		os.MkdirAll(filepath.Join(verif, "replays"), 0o755)
		os.WriteFile(path, b, 0o644)
		for i, m := range drift {
			if i < 3 {
				fmt.Println("DRIFT:", trunc(m, 300))
			}
		}
		fmt.Printf("VIOLATION property=%s replay=%s contract-drift (%d clauses no longer bind to the code) no-failing-input-found\n", prop, path, len(drift))
	}
	// evidence
	var tb []string
	tb = append(tb, "SMT solvers z3 5.1.0 / z3 4.8.12 / cvc5 1.0 (answers 'unsat' are trusted)")
	tb = append(tb, "govc translation of go/ssa (NaiveForm) to verification conditions; drops: error text, DebugRef; integers mathematical (no overflow), float64 as reals, append never writes a shared backing array; reading a nil map finds no key (ground fact about reference 0)")
	if tier != "thorough" {
		// clauses of this property that belong to the thorough tier are assumptions of a quick run
		var later []string
		for _, fn := range fns {
			ct := e.contractFor(fn)
			if ct == nil {
				continue
			}
			var all []*Clause
			all = append(all, ct.Ensures...)
			all = append(all, ct.LoopInvs...)
			all = append(all, ct.AtLines...)
			all = append(all, ct.AtReturn...)
			for _, cl := range all {
				if hasProp(cl.Tags, prop+":t") && cl.Name != "" {
					later = append(later, e.fnKey(fn)+"/"+cl.Name)
				}
			}
		}
		if len(later) > 0 {
			sort.Strings(later)
			tb = append(tb, "assumed in the quick tier, proved in the thorough tier of "+prop+" (tag "+prop+":t): "+strings.Join(later, ", "))
		}
	}
	var lib []string
	for k, c := range e.contracts {
		if c.Assumed && e.usedContracts[k] {
			lib = append(lib, k)
		}
	}
	sort.Strings(lib)
	if len(lib) > 0 {
		tb = append(tb, "assumed library contracts used: "+strings.Join(lib, ", "))
	}
	var dk []string
	for k := range e.defaults {
		dk = append(dk, k)
	}
	sort.Strings(dk)
	if len(dk) > 0 {
		tb = append(tb, "external callees with default contract (writes only through pointer arguments): "+strings.Join(dk, ", "))
	}
	var tl []string
	for t := range trusted {
		tl = append(tl, t)
	}
	sort.Strings(tl)
	for _, t := range tl {
		tb = append(tb, "trusted (not proved) obligation: "+t)
	}
	var ax []string
	for _, sf := range e.specFiles {
		for _, a := range sf.Axioms {
			ax = append(ax, a.Name)
		}
	}
	tb = append(tb, fmt.Sprintf("%d specification axioms (spec/*.gspec and contracts_verif.go): %s", len(ax), strings.Join(ax, ", ")))
	sort.Strings(funcsUnder)
	cov := map[string]any{
		"obligations":        nOb,
		"discharged":         nOK,
		"checker_cmd":        fmt.Sprintf("/verif/bin/govc check -tier %s %s", tier, prop),
		"trusted_base":       tb,
		"functions":          funcsUnder,
		"by_kind":            kindCount,
		"by_backend":         perSolver,
		"solver_seconds":     round2(solverSecs),
		"samples":            nonNil(samples),
		"unreachable_returns": unreachable,
		"slowest_obligations": func() []string {
			sort.Slice(slow, func(i, j int) bool { return slow[i].secs > slow[j].secs })
			var out []string
			for i, x := range slow {
				if i >= 5 {
					break
				}
				out = append(out, fmt.Sprintf("%s %.2fs %s", x.name, x.secs, x.solver))
			}
			return out
		}(),
		"known_findings":     len(printedKnown),
		"known_finding_obligations": knownObs,
		"undischarged":       obNames(failed),
		"contract_drift":     drift,
		"per_obligation_timeout_ms": opts.TimeoutMs,
	}
	ev := Evidence{PropertyID: prop, Tier: tier, Seed: seed, Level: "proof", Coverage: cov,
		Assumptions: tb, WallS: round2(time.Since(t0).Seconds()), Violations: violations}
	os.MkdirAll(filepath.Join(verif, "evidence"), 0o755)
	b, _ := json.MarshalIndent(ev, "", " ")
	os.WriteFile(filepath.Join(verif, "evidence", prop+".json"), b, 0o644)
	fmt.Printf("check %s: functions=%d obligations=%d discharged=%d known-findings=%d violations=%d wall=%.1fs\n", prop, len(funcsUnder), nOb, nOK, len(printedKnown), violations, time.Since(t0).Seconds())
	if violations > 0 {
		return 1
	}
	return 0
}

func round2(f float64) float64 { return float64(int(f*100+0.5)) / 100 }

func trunc(s string, n int) string {
	if len(s) > n {
		return s[:n] + " ..."
	}
	return s
}

func obNames(obs []*Obligation) []string {
	out := []string{}
	for _, ob := range obs {
		out = append(out, ob.Name+" ["+ob.Status+"]")
	}
	return out
}

func writeReplay(e *Engine, verif, prop string, ob *Obligation) string {
	name := sanitize(prop + "-" + ob.Name)
	if len(name) > 120 {
		name = name[:120]
	}
	path := filepath.Join(verif, "replays", name+".json")
	m := map[string]any{
		"property":   prop,
		"obligation": ob.Name,
		"kind":       ob.Kind,
		"function":   ob.Func,
		"position":   ob.Pos,
		"clause":     ob.Detail,
		"status":     ob.Status,
		"solver":     ob.Solver,
		"goal":       trunc(ob.Query, 4000),
		"model":      trunc(ob.Model, 8000),
	}
	b, _ := json.MarshalIndent(m, "", " ")
	os.WriteFile(path, b, 0o644)
	return path
}

// replayConfirms runs the replay recipe registered for the obligation (if any) against the real code.
// Recipes live in /verif/replays/recipes/<name>_test.go and are injected into the package with -overlay.
func replayConfirms(e *Engine, verif string, ob *Obligation, replayPath string) bool {
	recipes, _ := filepath.Glob(filepath.Join(verif, "replays", "recipes", "*.json"))
	for _, rf := range recipes {
		b, err := os.ReadFile(rf)
		if err != nil {
			continue
		}
		var r struct {
			Obligations []string `json:"obligations"`
			TestFile    string   `json:"test_file"`
			Run         string   `json:"run"`
		}
		if json.Unmarshal(b, &r) != nil || !obMatches(r.Obligations, ob.Name) {
			continue
		}
		out, failed := runOverlayTest(e.repo, filepath.Join(verif, "replays", "recipes", r.TestFile), r.Run)
		// append the outcome to the replay file
		var m map[string]any
		if rb, err := os.ReadFile(replayPath); err == nil && json.Unmarshal(rb, &m) == nil {
			m["replay_test"] = r.TestFile + " -run " + r.Run
			m["replay_output"] = trunc(out, 6000)
			m["replay_reproduced"] = failed
			nb, _ := json.MarshalIndent(m, "", " ")
			os.WriteFile(replayPath, nb, 0o644)
		}
		if failed {
			return true
		}
	}
	return false
}

// runOverlayTest injects a test file into /repo/jsonschema (without writing to the repository) and runs it.
// It returns the output and whether the test FAILED (i.e. the misbehaviour was reproduced on the real code).
func runOverlayTest(repo, testFile, run string) (string, bool) {
	dir, err := os.MkdirTemp("", "govc-replay-")
	if err != nil {
		return err.Error(), false
	}
	defer os.RemoveAll(dir)
	ov := map[string]any{"Replace": map[string]string{filepath.Join(repo, "jsonschema", "zz_govc_replay_test.go"): testFile}}
	ob, _ := json.Marshal(ov)
	ovPath := filepath.Join(dir, "overlay.json")
	os.WriteFile(ovPath, ob, 0o644)
	cmd := exec.Command("go", "test", "-overlay", ovPath, "-vet=off", "-count=1", "-timeout", "60s", "-run", run, ".")
	cmd.Dir = filepath.Join(repo, "jsonschema")
	cmd.Env = append(os.Environ(), "GOFLAGS=-mod=mod", "GOPROXY=off", "GOSUMDB=off", "GOTOOLCHAIN=local")
	out, err := cmd.CombinedOutput()
	return string(out), err != nil && strings.Contains(string(out), "FAIL")
}

func nonNil(x []any) []any {
	if x == nil {
		return []any{}
	}
	return x
}

// runReplay re-decides the obligation named in a replay file on the current tree: the obligation is generated
// again from /repo's source and given to the solvers; if a replay recipe is registered for it, the recipe's test is
// run against the real code as well. Exit 1 (with a VIOLATION line) if the obligation still fails or the recipe
// still reproduces the misbehaviour, 0 if the obligation is discharged now.
func runReplay(e *Engine, args []string, timeout int, verif string) int {
	if len(args) < 1 {
		fmt.Fprintln(os.Stderr, "usage: govc replay <file>")
		return 2
	}
	b, err := os.ReadFile(args[0])
	if err != nil {
		fmt.Fprintln(os.Stderr, err)
		return 2
	}
	var m struct {
		Property, Obligation, Function, Clause, Position string
		Drift                                             []string
	}
	if json.Unmarshal(b, &m) != nil || m.Obligation == "" {
		fmt.Printf("replay file %s names no obligation (contract drift or bounded harness): run the property's check instead\n", args[0])
		return 2
	}
	var fns []*ssa.Function
	for _, fn := range e.allFns {
		if e.fnKey(fn) == m.Function {
			fns = append(fns, fn)
		}
	}
	if len(fns) == 0 {
		fmt.Printf("VIOLATION property=%s replay=%s function %s no longer exists (contract drift) no-failing-input-found\n", m.Property, args[0], m.Function)
		return 1
	}
	e.scan()
	workDir, _ := os.MkdirTemp("", "govc-replay-")
	defer os.RemoveAll(workDir)
	opts := SolveOpts{WorkDir: workDir, TimeoutMs: timeout, Cross: true, Batch: 12}
	found := false
	var target *Obligation
	rr := e.verifyFuncs(fns, opts, func(ob *Obligation) bool {
		if ob.Name == m.Obligation {
			found = true
			return true
		}
		return false
	})
	for _, fr := range rr.Funcs {
		for _, ob := range fr.Obs {
			if ob.Name == m.Obligation {
				target = ob
			}
		}
	}
	if !found || target == nil {
		fmt.Printf("obligation %s is not generated from the current tree any more (the code or the contract changed): run ./check %s\n", m.Obligation, m.Property)
		return 2
	}
	fmt.Printf("obligation %s  clause: %s  at %s  -> %s (%s, %.2fs)\n", target.Name, target.Detail, target.Pos, target.Status, target.Solver, target.Secs)
	if target.Status == "unsat" {
		fmt.Printf("replay: the obligation is discharged on the current tree\n")
		return 0
	}
	suffix := ""
	if !replayConfirms(e, verif, target, args[0]) {
		suffix = " no-failing-input-found"
	}
	fmt.Printf("VIOLATION property=%s replay=%s obligation=%s status=%s%s\n", m.Property, args[0], target.Name, target.Status, suffix)
	return 1
}
