package main

// Mapping of Go types to SMT sorts and heap components.

import (
	"fmt"
	"go/types"
	"sort"
	"strings"
)

type SortInfo struct {
	Sort string
	Zero string
}

type StructInfo struct {
	T      *types.Struct
	Name   string // sanitized name used in SMT identifiers
	Sort   string // datatype sort name
	Fields []FieldInfo
}

type FieldInfo struct {
	Name string
	Sort string
	T    types.Type
}

type Sorts struct {
	structs    map[string]*StructInfo // by canonical type string
	structList []*StructInfo
	anyCtors   map[string]*AnyCtor // by canonical type string
	anyList    []*AnyCtor
	overrides  map[string]SortInfo // by Go type string (named types)
	mapTypes   map[string]*MapInfo
	mapList    []*MapInfo
	elemComps  map[string]string // elem comp name -> sort
	cellComps  map[string]string
	frozen     bool
	qual       types.Qualifier
	compMeta   map[string]compMeta
}

// compMeta describes the values stored in a heap component (for the old-heap closure axioms).
type compMeta struct {
	T    types.Type // type of the stored value
	Nest string     // "" (Array Int V), or the inner index sort for (Array Int (Array Nest V))
	Dom  bool       // map domain component: T is the key type
}

type AnyCtor struct {
	T    types.Type
	Name string // any_<name>
	Sort string
}

type MapInfo struct {
	Name  string
	KSort string
	VSort string
	VZero string
	K, V  types.Type
}

func newSorts() *Sorts {
	s := &Sorts{
		structs:   map[string]*StructInfo{},
		anyCtors:  map[string]*AnyCtor{},
		overrides: map[string]SortInfo{},
		mapTypes:  map[string]*MapInfo{},
		elemComps: map[string]string{},
		cellComps: map[string]string{},
		compMeta:  map[string]compMeta{},
	}
	s.qual = func(p *types.Package) string {
		if p.Path() == "github.com/google/jsonschema-go/jsonschema" {
			return ""
		}
		return p.Name()
	}
	// Abstract (opaque) external types.
	s.overrides["reflect.Value"] = SortInfo{"RV", "rv_invalid"}
	s.overrides["reflect.Type"] = SortInfo{"RT", "rt_nil"}
	s.overrides["reflect.StructTag"] = SortInfo{"String", `""`}
	return s
}

func (s *Sorts) typeName(t types.Type) string {
	return types.TypeString(t, s.qual)
}

func (s *Sorts) tname(t types.Type) string {
	n := s.typeName(t)
	full := n
	n = strings.NewReplacer("*", "ptr_", "[]", "sl_", "map[", "map_", "interface{}", "any").Replace(n)
	var sb strings.Builder
	for _, r := range n {
		if (r >= 'a' && r <= 'z') || (r >= 'A' && r <= 'Z') || (r >= '0' && r <= '9') || r == '_' {
			sb.WriteRune(r)
		} else {
			sb.WriteByte('_')
		}
	}
	n = sb.String()
	if len(n) > 48 {
		h := 0
		for _, c := range full {
			h = (h*31 + int(c)) % 1000003
		}
		n = fmt.Sprintf("%s_%d", n[:32], h)
	}
	return n
}

// opaque external struct types that are only manipulated through library calls
var opaqueExternal = map[string]bool{
	"maphash.Hash": true, "bytes.Buffer": true, "big.Rat": true, "big.Int": true, "big.Float": true,
	"regexp.Regexp": true, "sync.Map": true, "strings.Replacer": true, "reflect.MapIter": true,
	"maphash.Seed": true, "strings.Builder": true, "sync.Mutex": true, "time.Time": true,
}

func (s *Sorts) sortOf(t types.Type) SortInfo {
	if named, ok := t.(*types.Named); ok {
		if o, ok := s.overrides[s.typeName(named)]; ok {
			return o
		}
	}
	if _, ok := t.(*types.Alias); ok {
		return s.sortOf(types.Unalias(t))
	}
	switch u := t.Underlying().(type) {
	case *types.Basic:
		switch {
		case u.Info()&types.IsBoolean != 0:
			return SortInfo{"Bool", "false"}
		case u.Info()&types.IsInteger != 0:
			return SortInfo{"Int", "0"}
		case u.Info()&types.IsFloat != 0:
			return SortInfo{"Real", "0.0"}
		case u.Info()&types.IsString != 0:
			return SortInfo{"String", `""`}
		case u.Kind() == types.UnsafePointer:
			return SortInfo{"Int", "0"}
		case u.Kind() == types.UntypedNil:
			return SortInfo{"Int", "0"}
		case u.Info()&types.IsComplex != 0:
			return SortInfo{"Int", "0"}
		}
	case *types.Pointer, *types.Map, *types.Chan, *types.Signature:
		return SortInfo{"Int", "0"}
	case *types.Slice:
		return SortInfo{"Slice", "(mk_slice 0 0)"}
	case *types.Array:
		// arrays by value are represented by a backing-array reference
		return SortInfo{"Int", "0"}
	case *types.Interface:
		return SortInfo{"Any", "any_nil"}
	case *types.Struct:
		if named, ok := t.(*types.Named); ok && opaqueExternal[s.typeName(named)] {
			return SortInfo{"Int", "0"}
		}
		si := s.structInfo(t)
		zs := []string{}
		for _, f := range si.Fields {
			zs = append(zs, s.sortOf(f.T).Zero)
		}
		if len(zs) == 0 {
			return SortInfo{si.Sort, "mk_" + si.Name}
		}
		return SortInfo{si.Sort, "(mk_" + si.Name + " " + strings.Join(zs, " ") + ")"}
	case *types.Tuple:
		return SortInfo{"Int", "0"}
	case *types.TypeParam:
		return SortInfo{"Int", "0"}
	}
	return SortInfo{"Int", "0"}
}

func (s *Sorts) structInfo(t types.Type) *StructInfo {
	key := s.typeName(t)
	if si, ok := s.structs[key]; ok {
		return si
	}
	st := t.Underlying().(*types.Struct)
	si := &StructInfo{T: st, Name: s.tname(t)}
	si.Sort = "S_" + si.Name
	s.structs[key] = si // before recursion
	for i := 0; i < st.NumFields(); i++ {
		f := st.Field(i)
		si.Fields = append(si.Fields, FieldInfo{Name: f.Name(), T: f.Type(), Sort: s.sortOf(f.Type()).Sort})
	}
	s.structList = append(s.structList, si)
	return si
}

func (s *Sorts) fieldComp(structT types.Type, idx int) (name, sort string) {
	si := s.structInfo(structT)
	f := si.Fields[idx]
	s.compMeta["H_"+si.Name+"_"+f.Name] = compMeta{T: f.T}
	return "H_" + si.Name + "_" + f.Name, "(Array Int " + f.Sort + ")"
}

func (s *Sorts) elemComp(elemT types.Type) (name, sort string) {
	n := "E_" + s.tname(elemT)
	srt := "(Array Int (Array Int " + s.sortOf(elemT).Sort + "))"
	s.elemComps[n] = srt
	s.compMeta[n] = compMeta{T: elemT, Nest: "Int"}
	return n, srt
}

func (s *Sorts) cellComp(t types.Type) (name, sort string) {
	n := "C_" + s.tname(t)
	srt := "(Array Int " + s.sortOf(t).Sort + ")"
	s.cellComps[n] = srt
	s.compMeta[n] = compMeta{T: t}
	return n, srt
}

func (s *Sorts) mapInfo(t types.Type) *MapInfo {
	m := t.Underlying().(*types.Map)
	key := s.typeName(m)
	if mi, ok := s.mapTypes[key]; ok {
		return mi
	}
	mi := &MapInfo{Name: s.tname(m), K: m.Key(), V: m.Elem()}
	mi.KSort = s.sortOf(m.Key()).Sort
	vs := s.sortOf(m.Elem())
	mi.VSort, mi.VZero = vs.Sort, vs.Zero
	s.mapTypes[key] = mi
	s.mapList = append(s.mapList, mi)
	s.compMeta["MV_"+mi.Name] = compMeta{T: m.Elem(), Nest: mi.KSort}
	s.compMeta["MD_"+mi.Name] = compMeta{T: m.Key(), Nest: mi.KSort, Dom: true}
	return mi
}

func (mi *MapInfo) domComp() (string, string) {
	return "MD_" + mi.Name, "(Array Int (Array " + mi.KSort + " Bool))"
}
func (mi *MapInfo) valComp() (string, string) {
	return "MV_" + mi.Name, "(Array Int (Array " + mi.KSort + " " + mi.VSort + "))"
}
func (mi *MapInfo) lenComp() (string, string) { return "ML_" + mi.Name, "(Array Int Int)" }

func (s *Sorts) anyCtor(t types.Type) *AnyCtor {
	key := s.typeName(t)
	if c, ok := s.anyCtors[key]; ok {
		return c
	}
	c := &AnyCtor{T: t, Name: "any_" + s.tname(t), Sort: s.sortOf(t).Sort}
	s.anyCtors[key] = c
	s.anyList = append(s.anyList, c)
	return c
}

// prelude emits the sort and datatype declarations. Must be called after all
// functions of interest have been translated (types are discovered lazily).
func (s *Sorts) prelude() string {
	var sb strings.Builder
	sb.WriteString("(declare-sort RV 0)\n(declare-sort RT 0)\n")
	sb.WriteString("(declare-const rv_invalid RV)\n(declare-const rt_nil RT)\n(declare-const epoch Int)\n(assert (>= epoch 0))\n")
	sb.WriteString("(declare-datatypes ((Slice 0)) (((mk_slice (s_arr Int) (s_len Int)))))\n")
	// struct datatypes in dependency order (fields only reference flat sorts or other structs already listed:
	// structInfo appends after recursion, so structList is already topologically sorted).
	// Any datatype may hold struct values, and structs may hold Any: declare mutually.
	var names []string
	var bodies []string
	names = append(names, "(Any 0)")
	var actors []string
	actors = append(actors, "(any_nil)", "(any_other (any_other_id Int) (any_other_type Int))")
	al := append([]*AnyCtor{}, s.anyList...)
	sort.Slice(al, func(i, j int) bool { return al[i].Name < al[j].Name })
	for _, c := range al {
		actors = append(actors, fmt.Sprintf("(%s (val_%s %s))", c.Name, c.Name, c.Sort))
	}
	bodies = append(bodies, "("+strings.Join(actors, " ")+")")
	for _, si := range s.structList {
		names = append(names, "("+si.Sort+" 0)")
		var fs []string
		for _, f := range si.Fields {
			fs = append(fs, fmt.Sprintf("(%s_%s %s)", si.Name, f.Name, f.Sort))
		}
		bodies = append(bodies, fmt.Sprintf("((mk_%s %s))", si.Name, strings.Join(fs, " ")))
	}
	sb.WriteString("(declare-datatypes (" + strings.Join(names, " ") + ") (" + strings.Join(bodies, "\n  ") + "))\n")
	return sb.String()
}

// refExprs lists the SMT terms (over the variable v of type t) that denote references inside a value of type t.
func (s *Sorts) refExprs(t types.Type, v string, depth int) []string {
	if depth > 2 {
		return nil
	}
	si := s.sortOf(t)
	switch u := t.Underlying().(type) {
	case *types.Pointer, *types.Map:
		if si.Sort == "Int" {
			return []string{v}
		}
	case *types.Slice:
		return []string{"(s_arr " + v + ")"}
	case *types.Struct:
		if !strings.HasPrefix(si.Sort, "S_") {
			return nil
		}
		info := s.structInfo(t)
		var out []string
		for i := 0; i < u.NumFields(); i++ {
			f := info.Fields[i]
			out = append(out, s.refExprs(f.T, fmt.Sprintf("(%s_%s %s)", info.Name, f.Name, v), depth+1)...)
		}
		return out
	}
	return nil
}

// oldHeapAxiom: objects that existed before the current API call only reference objects that existed before it.
func (s *Sorts) oldHeapAxiom(comp, oldName string) string {
	m, ok := s.compMeta[comp]
	if !ok {
		return ""
	}
	var val, binders, pat string
	if m.Dom {
		// the nil map has no keys (reads of a nil map find nothing); nil is reference 0 of the immutable old heap
		nilax := fmt.Sprintf("(assert (= (select %s 0) ((as const (Array %s Bool)) false)))\n", oldName, m.Nest)
		refs := s.refExprs(m.T, "k!o", 0)
		if len(refs) == 0 {
			return nilax
		}
		var cs []string
		for _, r := range refs {
			cs = append(cs, fmt.Sprintf("(<= %s epoch)", r))
		}
		return nilax + fmt.Sprintf("(assert (forall ((r!o Int) (k!o %s)) (! (=> (and (<= r!o epoch) (select (select %s r!o) k!o)) (and %s)) :pattern ((select (select %s r!o) k!o)))))\n", m.Nest, oldName, strings.Join(cs, " "), oldName)
	}
	if m.Nest == "" {
		val = fmt.Sprintf("(select %s r!o)", oldName)
		binders = "(r!o Int)"
	} else {
		val = fmt.Sprintf("(select (select %s r!o) k!o)", oldName)
		binders = fmt.Sprintf("(r!o Int) (k!o %s)", m.Nest)
	}
	pat = val
	refs := s.refExprs(m.T, val, 0)
	if len(refs) == 0 {
		return ""
	}
	var cs []string
	for _, r := range refs {
		cs = append(cs, fmt.Sprintf("(<= %s epoch)", r))
	}
	return fmt.Sprintf("(assert (forall (%s) (! (=> (<= r!o epoch) (and %s)) :pattern (%s))))\n", binders, strings.Join(cs, " "), pat)
}

// entryHeapAxiom: at function entry no stored reference points beyond the allocation counter.
func (s *Sorts) entryHeapAxiom(comp, verName, allocName string) string {
	m, ok := s.compMeta[comp]
	if !ok || m.Dom {
		return ""
	}
	var val, binders string
	if m.Nest == "" {
		val = fmt.Sprintf("(select %s r!e)", verName)
		binders = "(r!e Int)"
	} else {
		val = fmt.Sprintf("(select (select %s r!e) k!e)", verName)
		binders = fmt.Sprintf("(r!e Int) (k!e %s)", m.Nest)
	}
	refs := s.refExprs(m.T, val, 0)
	if len(refs) == 0 {
		return ""
	}
	var cs []string
	for _, r := range refs {
		cs = append(cs, fmt.Sprintf("(<= %s %s)", r, allocName))
	}
	return fmt.Sprintf("(assert (forall (%s) (! (and %s) :pattern (%s))))\n", binders, strings.Join(cs, " "), val)
}
