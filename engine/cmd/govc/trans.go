package main

// SSA (go/ssa, NaiveForm) -> IL translation.

import (
	"strconv"
	"os"
	"fmt"
	"go/constant"
	"go/token"
	"go/types"
	"sort"
	"strings"

	"golang.org/x/tools/go/ssa"
)

type VKind int

const (
	VExpr VKind = iota
	VAddr
	VClosure
	VTuple
	VFunc    // static function value
	VIterSeq // result of calling an iterator-returning function
	VRange   // map/string range iterator
)

type Val struct {
	K     VKind
	E     string
	T     types.Type
	Addr  *Addr
	Fn    *ssa.Function
	Binds []*Val
	Tuple []*Val
	// VIterSeq
	IterC    *Contract
	IterArgs []*Val
	IterFn   *ssa.Function
	// VRange
	RangeX   *Val
	Visited  *MVar
	Wrapped  *Val // for MakeInterface: the wrapped value (to see through any(&x))
	ConstStr *string
}

type RootKind int

const (
	RCell RootKind = iota
	RField
	RElem
	RHeapCell
	RGlobal
	RWhole // whole struct object behind a reference (for *p loads/stores of struct type)
)

type Addr struct {
	K      RootKind
	Var    *MVar       // RCell, RGlobal
	Ref    string      // RField, RHeapCell, RWhole: reference expr; RElem: backing array ref
	Idx    string      // RElem
	StructT types.Type // RField/RWhole: struct type
	Field  int         // RField
	T      types.Type  // type of the value stored at root
	Path   []int       // nested by-value struct field path below root
	PathT  []types.Type
}

func (a *Addr) valueType() types.Type {
	if len(a.PathT) > 0 {
		return a.PathT[len(a.PathT)-1]
	}
	return a.T
}

type Frame struct {
	fn      *ssa.Function
	prefix  string
	vals    map[ssa.Value]*Val
	blocks  map[*ssa.BasicBlock]*ILBlock
	exitOf  map[*ssa.BasicBlock]*ILBlock // last IL block of an SSA block (after splitting)
	parent  *Frame
	binds   []*Val   // free variable bindings
	params  []*Val
	retTo   *ILBlock // for inlined frames: continuation
	retVals []*MVar  // for inlined frames: result cells
	defers  []*deferRec
	yieldOf *iterExpansion // non-nil if this frame is an inlined yield body
	phis    []phiRec
	depth   int
	escaping map[*ssa.Alloc]bool
}

type deferRec struct {
	guard *MVar
	call  *ssa.Defer
	frame *Frame
}

type iterExpansion struct {
	head  *ILBlock
	after *ILBlock
}

type Trans struct {
	eng      *Engine
	fn       *ssa.Function
	name     string
	il       *ILFunc
	cur      *ILBlock
	contract *Contract
	scope    *Scope // entry scope (params etc.)
	props    []string
	nInst    int
	nFresh   int
	obCount  map[string]int
	notes    []string
	unsup    map[string]int
	alloc    *MVar
	results  []*MVar
	resultT  []types.Type
	loopInfo map[*ILBlock]*loopOrigin
	mode     string // "verify"
	callN    map[string]int
	localVar map[string][]*localRef // source name -> cells (for invariants)
	safety   bool
	lets     map[string]TExpr
	modSpecific []modLoc
	modCoarse   map[string]bool
	checkMod    bool
	cellVals    map[*MVar]*Val
	defs        map[string]string
	top         *Frame
	deferSites  []*deferSite
	frames      []*Frame
	rangeSets   []*MVar
	rangeIntBound map[*MVar]string
	noFrame bool
	freshRefs map[string]bool
	knownNew  map[string]bool
	atCallN   map[string]int
	atLineDone map[*Clause]bool
	srcLines  map[string][]string
	lastCallScope *Scope
	knownOld  map[string]bool
	curBinds []*Val
}

type modLoc struct {
	comp string
	ref  string // SMT expr evaluated at entry (immutable consts / old tokens)
}

type localRef struct {
	name  string
	pos   token.Pos
	addr  *Addr
	frame *Frame
	obj   types.Object
	alloc *ssa.Alloc
}

type loopOrigin struct {
	frame *Frame
	blk   *ssa.BasicBlock
	kind  string
	key   string
	pos   []token.Pos
	jump  *MVar
	jumpExpr string
}

func (tr *Trans) note(f string, a ...any) {
	tr.notes = append(tr.notes, fmt.Sprintf(f, a...))
}

func (tr *Trans) unsupported(what string) {
	if tr.unsup == nil {
		tr.unsup = map[string]int{}
	}
	tr.unsup[what]++
}

func (tr *Trans) freshName(hint string) string {
	tr.nFresh++
	return fmt.Sprintf("%s!%d", sanitize(hint), tr.nFresh)
}

func (tr *Trans) freshConst(hint, sort string) string {
	n := tr.freshName(hint)
	tr.il.declConst(n, sort)
	return n
}

func (tr *Trans) sortOf(t types.Type) SortInfo { return tr.eng.sorts.sortOf(t) }

// sel reads heap component comp at ref. Objects that existed before the current API call began
// (ref <= epoch) live in an immutable "old" heap; newer objects in the mutable component variable.
func (tr *Trans) sel(comp, sort, ref string) string {
	if tr.freshRefs[ref] || tr.knownNew[ref] {
		v := tr.il.mvar(comp, sort)
		v.Comp = comp
		return fmt.Sprintf("(select %s %s)", cur(v), ref)
	}
	if tr.knownOld[ref] {
		return fmt.Sprintf("(select %s %s)", heapOldName(tr.il, comp, sort), ref)
	}
	return heapSel(tr.il, comp, sort, ref, false, nil)
}

func heapOldName(il *ILFunc, comp, sort string) string {
	n := "|" + comp + "!old|"
	il.declConst(n, sort)
	return n
}

func heapSel(il *ILFunc, comp, sort, ref string, useOld bool, heapFn func(comp, sort string) string) string {
	v := il.mvar(comp, sort)
	v.Comp = comp
	nw := cur(v)
	if useOld {
		nw = old(v)
	}
	if heapFn != nil {
		nw = heapFn(comp, sort)
	}
	return fmt.Sprintf("(ite (<= %s epoch) (select %s %s) (select %s %s))", ref, heapOldName(il, comp, sort), ref, nw, ref)
}

// upd writes val at ref in the (new-object part of) component comp.
func (tr *Trans) upd(comp, sort, ref, val string) {
	hv := tr.heapVar(comp, sort)
	tr.eng.recordWrite(tr.fn, comp)
	tr.cur.assign(hv, fmt.Sprintf("(store %s %s %s)", cur(hv), ref, val))
	if gs, ok := tr.eng.ghost["BytesVal"]; ok && comp == "E_uint8" {
		// the ghost content of a byte array (as a whole value) is forgotten whenever the array is written
		tr.upd("BytesVal", gs, ref, tr.freshConst("bytes", "Bytes"))
	}
}

func (tr *Trans) heapVar(comp, sort string) *MVar {
	v := tr.il.mvar(comp, sort)
	v.Comp = comp
	return v
}

// ---- obligations ----

func (tr *Trans) ob(kind, anchor string, pos token.Pos, detail string, props []string) *Obligation {
	base := fmt.Sprintf("%s/%s@%s", tr.name, kind, anchor)
	tr.obCount[base]++
	name := base
	if n := tr.obCount[base]; n > 1 {
		name = fmt.Sprintf("%s#%d", base, n)
	}
	if len(props) == 0 {
		props = tr.eng.propsFor(tr.name, kind)
	}
	p := ""
	if pos.IsValid() {
		pp := tr.eng.fset.Position(pos)
		p = fmt.Sprintf("%s:%d", shortFile(pp.Filename), pp.Line)
	}
	return &Obligation{Name: name, Kind: kind, Func: tr.name, Props: props, Pos: p, Detail: detail}
}

func shortFile(f string) string {
	if i := strings.LastIndex(f, "/"); i >= 0 {
		return f[i+1:]
	}
	return f
}

func (tr *Trans) assertSafe(cond, what string, pos token.Pos, detail string) {
	if !tr.safety {
		tr.cur.assume(cond)
		return
	}
	tr.cur.assert(cond, tr.ob("safe", what, pos, detail, nil))
}

// ---- values ----

func (tr *Trans) constVal(c *ssa.Const) *Val {
	t := c.Type()
	si := tr.sortOf(t)
	if c.Value == nil {
		return &Val{K: VExpr, E: si.Zero, T: t}
	}
	switch c.Value.Kind() {
	case constant.Bool:
		return &Val{K: VExpr, E: fmt.Sprint(constant.BoolVal(c.Value)), T: t}
	case constant.String:
		s := constant.StringVal(c.Value)
		return &Val{K: VExpr, E: smtString(s), T: t, ConstStr: &s}
	case constant.Int:
		if si.Sort == "Real" {
			return &Val{K: VExpr, E: smtReal(c.Value), T: t}
		}
		return &Val{K: VExpr, E: smtInt(c.Value.ExactString()), T: t}
	case constant.Float:
		if si.Sort == "Int" {
			if i, ok := constant.Int64Val(constant.ToInt(c.Value)); ok {
				return &Val{K: VExpr, E: smtInt(fmt.Sprint(i)), T: t}
			}
		}
		return &Val{K: VExpr, E: smtReal(c.Value), T: t}
	}
	return &Val{K: VExpr, E: si.Zero, T: t}
}

func smtReal(v constant.Value) string {
	v = constant.ToFloat(v)
	num := constant.Num(v)
	den := constant.Denom(v)
	ns, ds := num.ExactString(), den.ExactString()
	neg := strings.HasPrefix(ns, "-")
	if neg {
		ns = ns[1:]
	}
	var e string
	if ds == "1" {
		e = ns + ".0"
	} else {
		e = "(/ " + ns + ".0 " + ds + ".0)"
	}
	if neg {
		e = "(- " + e + ")"
	}
	return e
}

func (tr *Trans) val(fr *Frame, v ssa.Value) *Val {
	switch x := v.(type) {
	case *ssa.Const:
		return tr.constVal(x)
	case *ssa.Function:
		return &Val{K: VFunc, Fn: x, T: x.Type(), E: "0"}
	case *ssa.Global:
		return &Val{K: VAddr, T: x.Type(), Addr: tr.globalAddr(x)}
	case *ssa.Builtin:
		return &Val{K: VExpr, E: "0", T: x.Type()}
	case *ssa.FreeVar:
		for i, fv := range fr.fn.FreeVars {
			if fv == x {
				if i < len(fr.binds) && fr.binds[i] != nil {
					return fr.binds[i]
				}
			}
		}
	case *ssa.Parameter:
		for i, p := range fr.fn.Params {
			if p == x && i < len(fr.params) && fr.params[i] != nil {
				return fr.params[i]
			}
		}
	}
	if r, ok := fr.vals[v]; ok {
		return r
	}
	// Not yet defined (e.g. value defined in a block translated later): declare a const.
	si := tr.sortOf(v.Type())
	name := fr.prefix + v.Name()
	tr.il.declConst(sanitize(name), si.Sort)
	r := &Val{K: VExpr, E: sanitize(name), T: v.Type()}
	fr.vals[v] = r
	return r
}

// define binds SSA value v to expression e (snapshot into an immutable constant).
func (tr *Trans) define(fr *Frame, v ssa.Value, e string) *Val {
	si := tr.sortOf(v.Type())
	name := sanitize(fr.prefix + v.Name())
	tr.il.declConst(name, si.Sort)
	tr.cur.assume(fmt.Sprintf("(= %s %s)", name, e))
	tr.defs[name] = e
	r := &Val{K: VExpr, E: name, T: v.Type()}
	fr.vals[v] = r
	return r
}

func (tr *Trans) defineHavoc(fr *Frame, v ssa.Value) *Val {
	si := tr.sortOf(v.Type())
	name := sanitize(fr.prefix + v.Name())
	tr.il.declConst(name, si.Sort)
	r := &Val{K: VExpr, E: name, T: v.Type()}
	fr.vals[v] = r
	tr.typeFacts(r)
	return r
}

// typeFacts assumes representation invariants of a freshly havoc'd value.
func (tr *Trans) typeFacts(v *Val) {
	if v.K != VExpr || v.T == nil {
		return
	}
	switch u := v.T.Underlying().(type) {
	case *types.Slice:
		tr.cur.assume(fmt.Sprintf("(and (>= (s_len %s) 0) (>= (s_arr %s) 0) (=> (= (s_arr %s) 0) (= (s_len %s) 0)))", v.E, v.E, v.E, v.E))
		tr.cur.assume(fmt.Sprintf("(<= (s_arr %s) %s)", v.E, cur(tr.alloc)))
	case *types.Pointer, *types.Map:
		if tr.sortOf(v.T).Sort == "Int" {
			tr.cur.assume(fmt.Sprintf("(and (>= %s 0) (<= %s %s))", v.E, v.E, cur(tr.alloc)))
		}
	case *types.Basic:
		if u.Info()&types.IsUnsigned != 0 {
			tr.cur.assume(fmt.Sprintf("(>= %s 0)", v.E))
		}
	}
}

// expr returns the SMT expression of a value (materialising addresses/closures as opaque refs).
func (tr *Trans) expr(v *Val) string {
	switch v.K {
	case VExpr:
		return v.E
	case VAddr:
		return tr.materialize(v.Addr)
	case VClosure:
		if v.Fn != nil {
			tr.eng.opaqueUse[v.Fn] = true // the closure escapes as a value
		}
		return "0"
	case VFunc, VIterSeq, VRange:
		return "0"
	case VTuple:
		return "0"
	}
	return "0"
}

// ---- addresses ----

func (tr *Trans) globalAddr(g *ssa.Global) *Addr {
	t := g.Type().(*types.Pointer).Elem()
	name := "G_" + sanitize(g.Pkg.Pkg.Name()+"."+g.Name())
	v := tr.il.mvar(name, tr.sortOf(t).Sort)
	v.Comp = name
	return &Addr{K: RGlobal, Var: v, T: t}
}

// materialize turns a syntactic address into an opaque reference value.
func (tr *Trans) materialize(a *Addr) string {
	switch a.K {
	case RHeapCell:
		if len(a.Path) == 0 {
			return a.Ref
		}
	case RWhole:
		if len(a.Path) == 0 {
			return a.Ref
		}
	}
	if a.K == RGlobal && len(a.Path) == 0 {
		c := "gaddr_" + sanitize(a.Var.Name)
		if !tr.il.declSet["!"+c] {
			tr.il.declSet["!"+c] = true
			tr.il.Entry.assume(fmt.Sprintf("(<= %s %s)", c, old(tr.alloc)))
		}
		return c
	}
	tr.unsupported("address-materialized:" + fmt.Sprint(a.K))
	// an uninterpreted but deterministic encoding: distinct fresh ref
	return tr.freshConst("addr", "Int")
}

func (tr *Trans) loadRoot(a *Addr) string {
	switch a.K {
	case RCell, RGlobal:
		return cur(a.Var)
	case RField:
		comp, srt := tr.eng.sorts.fieldComp(a.StructT, a.Field)
		return tr.sel(comp, srt, a.Ref)
	case RElem:
		comp, srt := tr.eng.sorts.elemComp(a.T)
		return fmt.Sprintf("(select %s %s)", tr.sel(comp, srt, a.Ref), a.Idx)
	case RHeapCell:
		comp, srt := tr.eng.sorts.cellComp(a.T)
		return tr.sel(comp, srt, a.Ref)
	case RWhole:
		si := tr.eng.sorts.structInfo(a.StructT)
		var fs []string
		for i := range si.Fields {
			comp, srt := tr.eng.sorts.fieldComp(a.StructT, i)
			fs = append(fs, tr.sel(comp, srt, a.Ref))
		}
		if len(fs) == 0 {
			return "mk_" + si.Name
		}
		return "(mk_" + si.Name + " " + strings.Join(fs, " ") + ")"
	}
	panic("loadRoot")
}

func (tr *Trans) load(a *Addr) string {
	e := tr.loadRoot(a)
	t := a.T
	for i, fi := range a.Path {
		si := tr.eng.sorts.structInfo(t)
		e = fmt.Sprintf("(%s_%s %s)", si.Name, si.Fields[fi].Name, e)
		t = a.PathT[i]
	}
	return e
}

// updated returns the new root value after storing val at path below cur root value.
func (tr *Trans) updated(rootVal string, t types.Type, path []int, pathT []types.Type, val string) string {
	if len(path) == 0 {
		return val
	}
	si := tr.eng.sorts.structInfo(t)
	var fs []string
	for i, f := range si.Fields {
		acc := fmt.Sprintf("(%s_%s %s)", si.Name, f.Name, rootVal)
		if i == path[0] {
			fs = append(fs, tr.updated(acc, pathT[0], path[1:], pathT[1:], val))
		} else {
			fs = append(fs, acc)
		}
	}
	return "(mk_" + si.Name + " " + strings.Join(fs, " ") + ")"
}

// store writes val at address a. pos/what are used for modifies obligations.
func (tr *Trans) store(a *Addr, val string, pos token.Pos) {
	newRoot := val
	if len(a.Path) > 0 {
		newRoot = tr.updated(tr.loadRoot(a), a.T, a.Path, a.PathT, val)
	}
	switch a.K {
	case RCell:
		tr.cur.assign(a.Var, newRoot)
	case RGlobal:
		tr.eng.recordWrite(tr.fn, a.Var.Name)
		if !strings.HasPrefix(tr.name, "init") && !tr.modCoarse[a.Var.Name] {
			tr.cur.assert("false", tr.ob("modifies", "global:"+a.Var.Name, pos, "package-level variable written outside init", tr.eng.propsFor(tr.name, "modifies-global")))
		}
		tr.cur.assign(a.Var, newRoot)
	case RField:
		comp, srt := tr.eng.sorts.fieldComp(a.StructT, a.Field)
		tr.checkWrite(comp, a.Ref, pos, comp)
		if len(a.Path) == 0 {
			tr.checkIsolation(a.T, newRoot, pos, comp)
		}
		tr.upd(comp, srt, a.Ref, newRoot)
	case RElem:
		comp, srt := tr.eng.sorts.elemComp(a.T)
		tr.checkWrite(comp, a.Ref, pos, comp)
		if len(a.Path) == 0 {
			tr.checkIsolation(a.T, newRoot, pos, comp)
		}
		tr.upd(comp, srt, a.Ref, fmt.Sprintf("(store %s %s %s)", tr.sel(comp, srt, a.Ref), a.Idx, newRoot))
	case RHeapCell:
		comp, srt := tr.eng.sorts.cellComp(a.T)
		tr.checkWrite(comp, a.Ref, pos, comp)
		tr.upd(comp, srt, a.Ref, newRoot)
	case RWhole:
		si := tr.eng.sorts.structInfo(a.StructT)
		// snapshot the value first (it may read the heap being updated)
		tmp := tr.freshConst("whole", si.Sort)
		tr.cur.assume(fmt.Sprintf("(= %s %s)", tmp, newRoot))
		for i, f := range si.Fields {
			comp, srt := tr.eng.sorts.fieldComp(a.StructT, i)
			tr.checkWrite(comp, a.Ref, pos, comp)
			tr.checkIsolation(f.T, fmt.Sprintf("(%s_%s %s)", si.Name, f.Name, tmp), pos, comp)
			tr.upd(comp, srt, a.Ref, fmt.Sprintf("(%s_%s %s)", si.Name, f.Name, tmp))
		}
	}
}

// havocAt havocs the location a (used for callee effects on pointer arguments).
func (tr *Trans) havocAt(a *Addr, pos token.Pos) {
	t := a.valueType()
	if a.K == RWhole && len(a.Path) == 0 {
		t = a.StructT
	}
	c := tr.freshConst("hv", tr.sortOf(t).Sort)
	tv := &Val{K: VExpr, E: c, T: t}
	tr.typeFacts(tv)
	tr.store(a, c, pos)
}

// checkWrite emits the frame obligations of a heap write:
//  modifies@comp : the written object was allocated during the current API call (ref > epoch), i.e. nothing the
//                  caller of the API can see is mutated;
//  frame@comp    : if the function declares a frame, the object is fresh since function entry or a declared location.
func (tr *Trans) checkWrite(comp, ref string, pos token.Pos, detail string) {
	tr.eng.recordWrite(tr.fn, comp)
	if ref == "" || tr.noFrame || tr.freshRefs[ref] {
		return // writes to objects allocated by this very function body are trivially within every frame
	}
	tr.cur.assert(fmt.Sprintf("(> %s epoch)", ref), tr.ob("modifies", comp, pos, "write to "+detail+" must target an object allocated during this API call", tr.eng.propsFor(tr.name, "modifies")))
	if !strings.Contains(ref, "@") {
		// from here on the reference is known to be new (the assertion is assumed once checked); reads through a
		// constant reference can use the mutable heap directly. Sound on every path: a direct read of an old object
		// merely yields an unconstrained value.
		tr.knownNew[ref] = true
	}
	if !tr.checkMod || tr.modCoarse[comp] || tr.modCoarse["*"] {
		return
	}
	alts := []string{fmt.Sprintf("(> %s %s)", ref, old(tr.alloc))}
	for _, m := range tr.modSpecific {
		if m.comp == comp {
			alts = append(alts, fmt.Sprintf("(= %s %s)", ref, m.ref))
		}
	}
	tr.cur.assert("(or "+strings.Join(alts, " ")+")", tr.ob("frame", comp, pos, "write to "+detail+" must target a fresh object or a declared location", tr.eng.propsFor(tr.name, "frame")))
}

// ---- allocation ----

func (tr *Trans) newRef(hint string) string {
	r := tr.freshConst(hint, "Int")
	tr.freshRefs[r] = true
	tr.cur.assume(fmt.Sprintf("(> %s %s)", r, cur(tr.alloc)))
	tr.cur.assign(tr.alloc, r)
	return r
}

// ---- function translation ----

func (tr *Trans) newFrame(fn *ssa.Function, parent *Frame) *Frame {
	fr := &Frame{fn: fn, vals: map[ssa.Value]*Val{}, blocks: map[*ssa.BasicBlock]*ILBlock{}, exitOf: map[*ssa.BasicBlock]*ILBlock{}, parent: parent, escaping: map[*ssa.Alloc]bool{}}
	if parent != nil {
		tr.nInst++
		fr.prefix = fmt.Sprintf("i%d_", tr.nInst)
		fr.depth = parent.depth + 1
	}
	for _, b := range fn.Blocks {
		fr.blocks[b] = tr.il.newBlock(fmt.Sprintf("%s%s.%d(%s)", fr.prefix, fn.Name(), b.Index, b.Comment))
		fr.blocks[b].Owner = fr
	}
	tr.computeEscapes(fr)
	return fr
}

// computeEscapes decides which Allocs can be modelled as plain cells.
func (tr *Trans) computeEscapes(fr *Frame) {
	for _, b := range fr.fn.Blocks {
		for _, ins := range b.Instrs {
			if al, ok := ins.(*ssa.Alloc); ok {
				fr.escaping[al] = tr.allocEscapes(al, al, map[ssa.Value]bool{})
			}
		}
	}
}

func (tr *Trans) allocEscapes(root *ssa.Alloc, v ssa.Value, seen map[ssa.Value]bool) bool {
	if seen[v] {
		return false
	}
	seen[v] = true
	refs := v.Referrers()
	if refs == nil {
		return true
	}
	for _, r := range *refs {
		switch x := r.(type) {
		case *ssa.DebugRef:
		case *ssa.Store:
			if x.Val == v {
				return true
			}
		case *ssa.UnOp:
			// load
		case *ssa.FieldAddr:
			if tr.allocEscapes(root, x, seen) {
				return true
			}
		case *ssa.IndexAddr:
			if tr.allocEscapes(root, x, seen) {
				return true
			}
		case *ssa.MakeClosure:
			if !tr.closureInlinable(x) {
				return true
			}
		case *ssa.Slice:
			// slicing an array alloc: array allocs are always heap backing arrays anyway
			return true
		default:
			return true
		}
	}
	return false
}

// closureInlinable reports whether every use of the closure value is one we inline.
func (tr *Trans) closureInlinable(mc *ssa.MakeClosure) bool {
	fn := mc.Fn.(*ssa.Function)
	if tr.eng.contractFor(fn) != nil {
		return false
	}
	if tr.eng.isRecursiveClosure(fn) {
		return false
	}
	refs := mc.Referrers()
	if refs == nil {
		return false
	}
	for _, r := range *refs {
		switch x := r.(type) {
		case *ssa.DebugRef:
		case *ssa.Store:
			// stored into a local cell that has exactly one store
			al, ok := x.Addr.(*ssa.Alloc)
			if !ok || x.Val != mc || !singleStore(al) || !onlyCalledOrLoaded(al) {
				return false
			}
		case *ssa.Call:
			if x.Call.Value == mc {
				continue
			}
			// passed as the yield argument of an iterator call
			if len(x.Call.Args) == 1 && x.Call.Args[0] == mc && !x.Call.IsInvoke() {
				if _, ok := x.Call.Value.(*ssa.Call); ok {
					continue
				}
			}
			return false
		case *ssa.Defer:
			if x.Call.Value != mc {
				return false
			}
		default:
			return false
		}
	}
	return true
}

func singleStore(al *ssa.Alloc) bool {
	n := 0
	for _, r := range *al.Referrers() {
		if st, ok := r.(*ssa.Store); ok && st.Addr == al {
			n++
		}
	}
	return n == 1
}

func onlyCalledOrLoaded(al *ssa.Alloc) bool {
	for _, r := range *al.Referrers() {
		switch x := r.(type) {
		case *ssa.DebugRef, *ssa.Store:
		case *ssa.UnOp:
			// loaded value must only be called
			for _, rr := range *x.Referrers() {
				switch c := rr.(type) {
				case *ssa.DebugRef:
				case *ssa.Call:
					if c.Call.Value != x {
						return false
					}
				default:
					return false
				}
			}
		case *ssa.MakeClosure:
			// captured by another closure (e.g. missingProperties captures hasProperty): fine if that one is inlined
		default:
			return false
		}
	}
	return true
}

func (tr *Trans) translateBody(fr *Frame) {
	fn := fr.fn
	// translate blocks in dominator-tree preorder so defs precede uses
	order := fn.DomPreorder()
	for _, b := range order {
		tr.cur = fr.blocks[b]
		for _, ins := range b.Instrs {
			if p := ins.Pos(); p.IsValid() {
				tr.cur.PosList = append(tr.cur.PosList, int(p))
			}
			tr.instr(fr, ins)
			if tr.cur == nil {
				break
			}
		}
		if tr.cur != nil {
			fr.exitOf[b] = tr.cur
		}
	}
}

func (tr *Trans) instr(fr *Frame, ins ssa.Instruction) {
	if fr == tr.top && tr.contract != nil && len(tr.contract.AtLines) > 0 {
		tr.atLine(fr, ins)
	}
	switch x := ins.(type) {
	case *ssa.DebugRef:
		tr.debugRef(fr, x)
	case *ssa.Alloc:
		tr.alloc_(fr, x)
	case *ssa.Store:
		tr.storeInstr(fr, x)
	case *ssa.UnOp:
		tr.unop(fr, x)
	case *ssa.BinOp:
		tr.binop(fr, x)
	case *ssa.Call:
		tr.call(fr, x, &x.Call, x)
	case *ssa.If:
		c := tr.expr(tr.val(fr, x.Cond))
		b := x.Block()
		tr.cur.edge(fr.blocks[b.Succs[0]], c)
		tr.cur.edge(fr.blocks[b.Succs[1]], "(not "+c+")")
		fr.exitOf[b] = tr.cur
		tr.cur = nil
	case *ssa.Jump:
		b := x.Block()
		tr.cur.edge(fr.blocks[b.Succs[0]], "true")
		fr.exitOf[b] = tr.cur
		tr.cur = nil
	case *ssa.Return:
		tr.ret(fr, x)
	case *ssa.Panic:
		tr.assertSafe("false", "panic", x.Pos(), "explicit panic must be unreachable")
		tr.cur.assume("false")
		fr.exitOf[x.Block()] = tr.cur
		tr.cur = nil
	case *ssa.RunDefers:
		tr.runDefers(fr)
	case *ssa.Defer:
		tr.deferInstr(fr, x)
	case *ssa.FieldAddr:
		tr.fieldAddr(fr, x)
	case *ssa.Field:
		v := tr.val(fr, x.X)
		st := x.X.Type().Underlying().(*types.Struct)
		if tr.sortOf(x.X.Type()).Sort == "RV" || !strings.HasPrefix(tr.sortOf(x.X.Type()).Sort, "S_") {
			tr.defineHavoc(fr, x)
			tr.unsupported("field-of-opaque")
			return
		}
		si := tr.eng.sorts.structInfo(x.X.Type())
		_ = st
		tr.define(fr, x, fmt.Sprintf("(%s_%s %s)", si.Name, si.Fields[x.Field].Name, tr.expr(v)))
	case *ssa.IndexAddr:
		tr.indexAddr(fr, x)
	case *ssa.Index:
		tr.index(fr, x)
	case *ssa.Lookup:
		tr.lookup(fr, x)
	case *ssa.MapUpdate:
		tr.mapUpdate(fr, x)
	case *ssa.MakeMap:
		r := tr.newRef("map")
		mi := tr.eng.sorts.mapInfo(x.Type())
		dc, ds := mi.domComp()
		lc, ls := mi.lenComp()
		tr.upd(dc, ds, r, fmt.Sprintf("((as const (Array %s Bool)) false)", mi.KSort))
		tr.upd(lc, ls, r, "0")
		tr.define(fr, x, r)
	case *ssa.MakeSlice:
		r := tr.newRef("mkslice")
		ln := tr.expr(tr.val(fr, x.Len))
		tr.assertSafe("(>= "+ln+" 0)", "makeslice", x.Pos(), "make([]T, n) needs n >= 0")
		et := x.Type().Underlying().(*types.Slice).Elem()
		comp, srt := tr.eng.sorts.elemComp(et)
		tr.upd(comp, srt, r, fmt.Sprintf("((as const (Array Int %s)) %s)", tr.sortOf(et).Sort, tr.sortOf(et).Zero))
		tr.define(fr, x, fmt.Sprintf("(mk_slice %s %s)", r, ln))
	case *ssa.MakeClosure:
		fn := x.Fn.(*ssa.Function)
		v := &Val{K: VClosure, Fn: fn, T: x.Type(), E: "0"}
		for _, b := range x.Bindings {
			v.Binds = append(v.Binds, tr.val(fr, b))
		}
		fr.vals[x] = v
	case *ssa.MakeInterface:
		tr.makeInterface(fr, x)
	case *ssa.ChangeInterface:
		from, to := tr.sortOf(x.X.Type()).Sort, tr.sortOf(x.Type()).Sort
		switch {
		case from == to:
			fr.vals[x] = tr.val(fr, x.X)
		case to == "Any":
			c := tr.eng.sorts.anyCtor(x.X.Type())
			tr.define(fr, x, fmt.Sprintf("(%s %s)", c.Name, tr.expr(tr.val(fr, x.X))))
		default:
			tr.defineHavoc(fr, x)
		}
	case *ssa.ChangeType:
		v := tr.val(fr, x.X)
		if v.K == VExpr && tr.sortOf(x.Type()).Sort == tr.sortOf(x.X.Type()).Sort {
			nv := *v
			nv.T = x.Type()
			fr.vals[x] = &nv
		} else if v.K != VExpr {
			nv := *v
			nv.T = x.Type()
			fr.vals[x] = &nv
		} else {
			tr.defineHavoc(fr, x)
			tr.unsupported("changetype-sort")
		}
	case *ssa.Convert:
		tr.convert(fr, x)
	case *ssa.TypeAssert:
		tr.typeAssert(fr, x)
	case *ssa.Extract:
		t := tr.val(fr, x.Tuple)
		if t.K == VTuple && x.Index < len(t.Tuple) {
			fr.vals[x] = t.Tuple[x.Index]
		} else {
			tr.defineHavoc(fr, x)
			tr.unsupported("extract")
		}
	case *ssa.Slice:
		tr.sliceInstr(fr, x)
	case *ssa.Phi:
		tr.phi(fr, x)
	case *ssa.Range:
		tr.rangeInstr(fr, x)
	case *ssa.Next:
		tr.nextInstr(fr, x)
	default:
		if v, ok := ins.(ssa.Value); ok {
			tr.defineHavoc(fr, v)
		}
		tr.unsupported(fmt.Sprintf("instr:%T", ins))
	}
}

func (tr *Trans) debugRef(fr *Frame, x *ssa.DebugRef) {
	// source names are bound through Alloc comments (recordLocalByAlloc)
}

func (tr *Trans) recordLocal(name string, obj types.Object, a *Addr, fr *Frame) {
	for _, l := range tr.localVar[name] {
		if l.obj == obj && l.frame == fr {
			return
		}
	}
	tr.localVar[name] = append(tr.localVar[name], &localRef{name: name, pos: obj.Pos(), addr: a, frame: fr, obj: obj})
}

func (tr *Trans) alloc_(fr *Frame, x *ssa.Alloc) {
	t := x.Type().(*types.Pointer).Elem()
	si := tr.sortOf(t)
	name := x.Comment
	if name == "" {
		name = x.Name()
	}
	// arrays: always a fresh backing array
	if at, ok := t.Underlying().(*types.Array); ok {
		r := tr.newRef("arr")
		comp, srt := tr.eng.sorts.elemComp(at.Elem())
		tr.upd(comp, srt, r, fmt.Sprintf("((as const (Array Int %s)) %s)", tr.sortOf(at.Elem()).Sort, tr.sortOf(at.Elem()).Zero))
		fr.vals[x] = &Val{K: VExpr, E: r, T: x.Type()}
		return
	}
	if named, ok := t.(*types.Named); ok && opaqueExternal[tr.eng.sorts.typeName(named)] {
		r := tr.newRef("opq")
		fr.vals[x] = &Val{K: VExpr, E: r, T: x.Type()}
		tr.eng.initOpaque(tr, named, r)
		// in specifications the variable's name denotes a pointer to the (opaque) object
		tr.recordLocalByAlloc(fr, x, &Addr{K: RWhole, Ref: r, T: t, StructT: t})
		return
	}
	if !fr.escaping[x] {
		v := tr.il.mvar(fmt.Sprintf("c$%s%s$%s", fr.prefix, x.Name(), sanitize(name)), si.Sort)
		tr.cur.assign(v, si.Zero)
		a := &Addr{K: RCell, Var: v, T: t}
		fr.vals[x] = &Val{K: VAddr, Addr: a, T: x.Type()}
		if x.Comment == "rangeint.iter" {
			if b := tr.rangeIntBoundOf(fr, x); b != "" {
				tr.rangeIntBound[v] = b
			}
		}
		tr.recordLocalByAlloc(fr, x, a)
		return
	}
	r := tr.newRef("new_" + sanitize(name))
	if _, ok := t.Underlying().(*types.Struct); ok && strings.HasPrefix(si.Sort, "S_") {
		a := &Addr{K: RWhole, Ref: r, StructT: t, T: t}
		// zero-initialise without modifies obligations (fresh object)
		sinfo := tr.eng.sorts.structInfo(t)
		for i, f := range sinfo.Fields {
			comp, srt := tr.eng.sorts.fieldComp(t, i)
			tr.upd(comp, srt, r, tr.sortOf(f.T).Zero)
		}
		_ = a
		fr.vals[x] = &Val{K: VExpr, E: r, T: x.Type()}
		tr.recordLocalByAlloc(fr, x, &Addr{K: RWhole, Ref: r, StructT: t, T: t})
		return
	}
	comp, srt := tr.eng.sorts.cellComp(t)
	tr.upd(comp, srt, r, si.Zero)
	fr.vals[x] = &Val{K: VExpr, E: r, T: x.Type()}
	tr.recordLocalByAlloc(fr, x, &Addr{K: RHeapCell, Ref: r, T: t})
}

func (tr *Trans) recordLocalByAlloc(fr *Frame, x *ssa.Alloc, a *Addr) {
	name := x.Comment
	if name == "" || strings.Contains(name, "$") || strings.Contains(name, ".") {
		return
	}
	for _, l := range tr.localVar[name] {
		if l.frame == fr && l.alloc == x {
			return
		}
	}
	pos := x.Pos()
	if !pos.IsValid() {
		// parameter copies have no position: they are declared at the function's position
		pos = fr.fn.Pos()
	}
	tr.localVar[name] = append(tr.localVar[name], &localRef{name: name, pos: pos, addr: a, frame: fr, alloc: x})
}

// addrOf interprets a pointer-typed value as an address.
func (tr *Trans) addrOf(v *Val, ptrT types.Type) *Addr {
	if v.K == VAddr {
		return v.Addr
	}
	pt, ok := ptrT.Underlying().(*types.Pointer)
	if !ok {
		return &Addr{K: RHeapCell, Ref: tr.expr(v), T: ptrT}
	}
	et := pt.Elem()
	if named, ok := et.(*types.Named); ok && opaqueExternal[tr.eng.sorts.typeName(named)] {
		return &Addr{K: RHeapCell, Ref: tr.expr(v), T: et}
	}
	if _, ok := et.Underlying().(*types.Struct); ok && strings.HasPrefix(tr.sortOf(et).Sort, "S_") {
		return &Addr{K: RWhole, Ref: tr.expr(v), StructT: et, T: et}
	}
	return &Addr{K: RHeapCell, Ref: tr.expr(v), T: et}
}

func (tr *Trans) nonNil(ref string, pos token.Pos, what string) {
	tr.assertSafe("(not (= "+ref+" 0))", "nil-deref", pos, what)
}

func (tr *Trans) storeInstr(fr *Frame, x *ssa.Store) {
	av := tr.val(fr, x.Addr)
	a := tr.addrOf(av, x.Addr.Type())
	if av.K != VAddr {
		tr.nonNil(tr.expr(av), x.Pos(), "store through pointer")
	}
	v := tr.val(fr, x.Val)
	// closures / iterators stored in single-store cells are tracked syntactically
	if v.K == VClosure || v.K == VFunc || v.K == VIterSeq {
		if a.K == RCell {
			tr.cellVals[a.Var] = v
		}
		return
	}
	tr.store(a, tr.expr(v), x.Pos())
	if a.K == RCell && v.Wrapped != nil {
		tr.cellVals[a.Var] = v
	}
}

func (tr *Trans) unop(fr *Frame, x *ssa.UnOp) {
	v := tr.val(fr, x.X)
	switch x.Op {
	case token.MUL:
		if cv := tr.closureInCell(fr, x.X); cv != nil {
			fr.vals[x] = cv
			return
		}
		a := tr.addrOf(v, x.X.Type())
		if v.K != VAddr {
			tr.nonNil(tr.expr(v), x.Pos(), "load through pointer")
		}
		if a.K == RCell {
			if cv, ok := tr.cellVals[a.Var]; ok && (cv.K == VClosure || cv.K == VFunc || cv.K == VIterSeq) {
				fr.vals[x] = cv
				return
			}
		}
		r := tr.define(fr, x, tr.load(a))
		tr.loadFacts(r)
	case token.NOT:
		tr.define(fr, x, "(not "+tr.expr(v)+")")
	case token.SUB:
		tr.define(fr, x, "(- "+tr.expr(v)+")")
	case token.XOR:
		tr.defineHavoc(fr, x)
	default:
		tr.defineHavoc(fr, x)
		tr.unsupported("unop:" + x.Op.String())
	}
}

// loadFacts: representation invariants of loaded values (references never exceed the allocation counter).
func (tr *Trans) loadFacts(v *Val) {
	tr.typeFacts(v)
}

func isString(t types.Type) bool {
	b, ok := t.Underlying().(*types.Basic)
	return ok && b.Info()&types.IsString != 0
}

func isFloat(t types.Type) bool {
	b, ok := t.Underlying().(*types.Basic)
	return ok && b.Info()&types.IsFloat != 0
}

func isInteger(t types.Type) bool {
	b, ok := t.Underlying().(*types.Basic)
	return ok && b.Info()&types.IsInteger != 0
}

func (tr *Trans) binop(fr *Frame, x *ssa.BinOp) {
	a, b := tr.val(fr, x.X), tr.val(fr, x.Y)
	ae, be := tr.expr(a), tr.expr(b)
	t := x.X.Type()
	srt := tr.sortOf(t).Sort
	var e string
	switch x.Op {
	case token.EQL, token.NEQ:
		switch {
		case srt == "Slice":
			// only comparison with nil is legal in Go
			e = fmt.Sprintf("(= (s_arr %s) (s_arr %s))", ae, be)
		default:
			if tr.sortOf(x.Y.Type()).Sort != srt {
				// interface compared with concrete value etc.
				tr.defineHavoc(fr, x)
				tr.unsupported("mixed-sort-compare")
				return
			}
			e = fmt.Sprintf("(= %s %s)", ae, be)
		}
		if x.Op == token.NEQ {
			e = "(not " + e + ")"
		}
	case token.LSS, token.LEQ, token.GTR, token.GEQ:
		op := map[token.Token]string{token.LSS: "<", token.LEQ: "<=", token.GTR: ">", token.GEQ: ">="}[x.Op]
		if isString(t) {
			switch x.Op {
			case token.LSS:
				e = fmt.Sprintf("(str.< %s %s)", ae, be)
			case token.LEQ:
				e = fmt.Sprintf("(str.<= %s %s)", ae, be)
			case token.GTR:
				e = fmt.Sprintf("(str.< %s %s)", be, ae)
			case token.GEQ:
				e = fmt.Sprintf("(str.<= %s %s)", be, ae)
			}
		} else {
			e = fmt.Sprintf("(%s %s %s)", op, ae, be)
		}
	case token.ADD:
		if isString(t) {
			e = fmt.Sprintf("(str.++ %s %s)", ae, be)
		} else {
			e = fmt.Sprintf("(+ %s %s)", ae, be)
		}
	case token.SUB:
		e = fmt.Sprintf("(- %s %s)", ae, be)
	case token.MUL:
		e = fmt.Sprintf("(* %s %s)", ae, be)
	case token.QUO:
		if isFloat(t) {
			e = fmt.Sprintf("(fdiv %s %s)", ae, be)
		} else {
			tr.assertSafe("(not (= "+be+" 0))", "div-zero", x.Pos(), "integer division by zero")
			e = fmt.Sprintf("(godiv %s %s)", ae, be)
		}
	case token.REM:
		tr.assertSafe("(not (= "+be+" 0))", "div-zero", x.Pos(), "integer remainder by zero")
		e = fmt.Sprintf("(gorem %s %s)", ae, be)
	default:
		tr.defineHavoc(fr, x)
		tr.unsupported("binop:" + x.Op.String())
		return
	}
	tr.define(fr, x, e)
}

func (tr *Trans) fieldAddr(fr *Frame, x *ssa.FieldAddr) {
	v := tr.val(fr, x.X)
	st := x.X.Type().Underlying().(*types.Pointer).Elem()
	sortName := tr.sortOf(st).Sort
	if !strings.HasPrefix(sortName, "S_") {
		// field of an opaque external struct
		fr.vals[x] = &Val{K: VExpr, E: tr.freshConst("opqfield", "Int"), T: x.Type()}
		tr.unsupported("fieldaddr-opaque:" + tr.eng.sorts.typeName(st))
		return
	}
	ft := st.Underlying().(*types.Struct).Field(x.Field).Type()
	if nr := tr.noReads(); nr != nil {
		fname := st.Underlying().(*types.Struct).Field(x.Field).Name()
		if forb, ok := nr[tr.eng.sorts.typeName(st)]; ok {
			cond := "true"
			for _, f := range forb {
				if f == fname {
					cond = "false"
				}
			}
			// one obligation per field access: the accessed field is outside the forbidden (non-asserting) set
			tr.cur.assert(cond, tr.ob("reads", tr.eng.sorts.typeName(st)+"."+fname, x.Pos(), "field "+tr.eng.sorts.typeName(st)+"."+fname+" is not one of the non-asserting keywords", tr.eng.propsFor(tr.name, "reads")))
		}
	}
	if v.K == VAddr {
		a := *v.Addr
		if a.K == RWhole && len(a.Path) == 0 {
			fr.vals[x] = &Val{K: VAddr, T: x.Type(), Addr: &Addr{K: RField, Ref: a.Ref, StructT: a.StructT, Field: x.Field, T: ft}}
			return
		}
		a.Path = append(append([]int{}, a.Path...), x.Field)
		a.PathT = append(append([]types.Type{}, a.PathT...), ft)
		fr.vals[x] = &Val{K: VAddr, T: x.Type(), Addr: &a}
		return
	}
	ref := tr.expr(v)
	tr.nonNil(ref, x.Pos(), "field access "+st.Underlying().(*types.Struct).Field(x.Field).Name()+" through nil pointer")
	fr.vals[x] = &Val{K: VAddr, T: x.Type(), Addr: &Addr{K: RField, Ref: ref, StructT: st, Field: x.Field, T: ft}}
}

func (tr *Trans) indexAddr(fr *Frame, x *ssa.IndexAddr) {
	v := tr.val(fr, x.X)
	idx := tr.expr(tr.val(fr, x.Index))
	switch u := x.X.Type().Underlying().(type) {
	case *types.Slice:
		s := tr.expr(v)
		tr.assertSafe(fmt.Sprintf("(and (<= 0 %s) (< %s (s_len %s)))", idx, idx, s), "index", x.Pos(), "slice index in range")
		fr.vals[x] = &Val{K: VAddr, T: x.Type(), Addr: &Addr{K: RElem, Ref: "(s_arr " + s + ")", Idx: idx, T: u.Elem()}}
	case *types.Pointer:
		at := u.Elem().Underlying().(*types.Array)
		ref := tr.expr(v)
		tr.assertSafe(fmt.Sprintf("(and (<= 0 %s) (< %s %d))", idx, idx, at.Len()), "index", x.Pos(), "array index in range")
		fr.vals[x] = &Val{K: VAddr, T: x.Type(), Addr: &Addr{K: RElem, Ref: ref, Idx: idx, T: at.Elem()}}
	default:
		fr.vals[x] = &Val{K: VExpr, E: tr.freshConst("idxaddr", "Int"), T: x.Type()}
		tr.unsupported("indexaddr")
	}
}

func (tr *Trans) index(fr *Frame, x *ssa.Index) {
	v := tr.val(fr, x.X)
	idx := tr.expr(tr.val(fr, x.Index))
	if isString(x.X.Type()) {
		s := tr.expr(v)
		tr.assertSafe(fmt.Sprintf("(and (<= 0 %s) (< %s (str.len %s)))", idx, idx, s), "index", x.Pos(), "string index in range")
		tr.define(fr, x, fmt.Sprintf("(str.to_code (str.at %s %s))", s, idx))
		return
	}
	tr.defineHavoc(fr, x)
	tr.unsupported("index-array-value")
}

func (tr *Trans) lookup(fr *Frame, x *ssa.Lookup) {
	v := tr.val(fr, x.X)
	k := tr.expr(tr.val(fr, x.Index))
	if isString(x.X.Type()) {
		s := tr.expr(v)
		tr.assertSafe(fmt.Sprintf("(and (<= 0 %s) (< %s (str.len %s)))", k, k, s), "index", x.Pos(), "string index in range")
		tr.define(fr, x, fmt.Sprintf("(str.to_code (str.at %s %s))", s, k))
		return
	}
	mi := tr.eng.sorts.mapInfo(x.X.Type())
	m := tr.expr(v)
	dc, ds := mi.domComp()
	vc, vs := mi.valComp()
	has := fmt.Sprintf("(select %s %s)", tr.sel(dc, ds, m), k)
	val := fmt.Sprintf("(ite %s (select %s %s) %s)", has, tr.sel(vc, vs, m), k, mi.VZero)
	if x.CommaOk {
		ok := tr.freshConst("ok", "Bool")
		tr.cur.assume(fmt.Sprintf("(= %s %s)", ok, has))
		vv := tr.freshConst("lv", mi.VSort)
		tr.cur.assume(fmt.Sprintf("(= %s %s)", vv, val))
		vval := &Val{K: VExpr, E: vv, T: mi.V}
		tr.typeFacts(vval)
		fr.vals[x] = &Val{K: VTuple, T: x.Type(), Tuple: []*Val{vval, {K: VExpr, E: ok, T: types.Typ[types.Bool]}}}
		return
	}
	r := tr.define(fr, x, val)
	tr.typeFacts(r)
}

func (tr *Trans) mapUpdate(fr *Frame, x *ssa.MapUpdate) {
	m := tr.expr(tr.val(fr, x.Map))
	k := tr.expr(tr.val(fr, x.Key))
	v := tr.expr(tr.val(fr, x.Value))
	tr.assertSafe("(not (= "+m+" 0))", "nil-map-write", x.Pos(), "assignment to entry in nil map")
	tr.checkIsolation(x.Value.Type(), v, x.Pos(), "mapvalue")
	tr.mapStore(x.Map.Type(), m, k, v, x.Pos())
}

func (tr *Trans) mapStore(mt types.Type, m, k, v string, pos token.Pos) {
	mi := tr.eng.sorts.mapInfo(mt)
	dc, ds := mi.domComp()
	vc, vs := mi.valComp()
	lc, ls := mi.lenComp()
	tr.checkWrite(dc, m, pos, "map "+mi.Name)
	tr.upd(lc, ls, m, fmt.Sprintf("(ite (select %s %s) %s (+ %s 1))", tr.sel(dc, ds, m), k, tr.sel(lc, ls, m), tr.sel(lc, ls, m)))
	tr.upd(dc, ds, m, fmt.Sprintf("(store %s %s true)", tr.sel(dc, ds, m), k))
	tr.upd(vc, vs, m, fmt.Sprintf("(store %s %s %s)", tr.sel(vc, vs, m), k, v))
}

func (tr *Trans) mapDelete(mt types.Type, m, k string, pos token.Pos) {
	mi := tr.eng.sorts.mapInfo(mt)
	dc, ds := mi.domComp()
	lc, ls := mi.lenComp()
	// delete on a nil map is a no-op
	tr.checkWriteGuarded(dc, m, "(not (= "+m+" 0))", pos, "map "+mi.Name)
	tr.upd(lc, ls, m, fmt.Sprintf("(ite (select %s %s) (- %s 1) %s)", tr.sel(dc, ds, m), k, tr.sel(lc, ls, m), tr.sel(lc, ls, m)))
	tr.upd(dc, ds, m, fmt.Sprintf("(store %s %s false)", tr.sel(dc, ds, m), k))
}

func (tr *Trans) checkWriteGuarded(comp, ref, guard string, pos token.Pos, detail string) {
	// the write happens only under guard: weaken the reference to a trivially allowed one otherwise
	r := tr.freshConst("gref", "Int")
	tr.cur.assume(fmt.Sprintf("(= %s (ite %s %s (+ %s 1)))", r, guard, ref, cur(tr.alloc)))
	tr.checkWrite(comp, r, pos, detail)
}

func (tr *Trans) makeInterface(fr *Frame, x *ssa.MakeInterface) {
	v := tr.val(fr, x.X)
	t := x.X.Type()
	if tr.sortOf(x.Type()).Sort != "Any" {
		// e.g. reflect.Type
		tr.defineHavoc(fr, x)
		return
	}
	c := tr.eng.sorts.anyCtor(t)
	r := tr.define(fr, x, fmt.Sprintf("(%s %s)", c.Name, tr.expr(v)))
	r.Wrapped = v
}

func (tr *Trans) typeAssert(fr *Frame, x *ssa.TypeAssert) {
	v := tr.val(fr, x.X)
	if tr.sortOf(x.X.Type()).Sort != "Any" || types.IsInterface(x.AssertedType) {
		if x.CommaOk {
			ok := tr.freshConst("taok", "Bool")
			rv := tr.freshConst("tav", tr.sortOf(x.AssertedType).Sort)
			fr.vals[x] = &Val{K: VTuple, T: x.Type(), Tuple: []*Val{{K: VExpr, E: rv, T: x.AssertedType}, {K: VExpr, E: ok, T: types.Typ[types.Bool]}}}
		} else {
			tr.defineHavoc(fr, x)
			if tr.sortOf(x.X.Type()).Sort == "Any" {
				tr.assertSafe("(not (= "+tr.expr(v)+" any_nil))", "type-assert", x.Pos(), "interface-to-interface assertion on nil")
			}
		}
		tr.unsupported("typeassert-iface")
		return
	}
	c := tr.eng.sorts.anyCtor(x.AssertedType)
	is := fmt.Sprintf("((_ is %s) %s)", c.Name, tr.expr(v))
	val := fmt.Sprintf("(val_%s %s)", c.Name, tr.expr(v))
	if x.CommaOk {
		ok := tr.freshConst("taok", "Bool")
		tr.cur.assume(fmt.Sprintf("(= %s %s)", ok, is))
		rv := tr.freshConst("tav", c.Sort)
		tr.cur.assume(fmt.Sprintf("(= %s (ite %s %s %s))", rv, is, val, tr.sortOf(x.AssertedType).Zero))
		vv := &Val{K: VExpr, E: rv, T: x.AssertedType}
		tr.typeFacts(vv)
		fr.vals[x] = &Val{K: VTuple, T: x.Type(), Tuple: []*Val{vv, {K: VExpr, E: ok, T: types.Typ[types.Bool]}}}
		return
	}
	tr.assertSafe(is, "type-assert", x.Pos(), "type assertion to "+tr.eng.sorts.typeName(x.AssertedType)+" must hold")
	r := tr.define(fr, x, val)
	tr.typeFacts(r)
}

func (tr *Trans) convert(fr *Frame, x *ssa.Convert) {
	v := tr.val(fr, x.X)
	from, to := tr.sortOf(x.X.Type()).Sort, tr.sortOf(x.Type()).Sort
	e := tr.expr(v)
	switch {
	case from == to && from != "Slice":
		r := tr.define(fr, x, e)
		if isInteger(x.Type()) && isInteger(x.X.Type()) {
			tr.convRange(r, x)
		}
	case from == "Int" && to == "Real":
		tr.define(fr, x, "(to_real "+e+")")
	case from == "Real" && to == "Int":
		tr.define(fr, x, "(f2i "+e+")")
	case from == "String" && to == "Slice":
		r := tr.defineHavoc(fr, x)
		tr.cur.assume(fmt.Sprintf("(and (= (s_len %s) (str.len %s)) (> (s_arr %s) 0))", r.E, e, r.E))
	case from == "Slice" && to == "String":
		r := tr.defineHavoc(fr, x)
		tr.cur.assume(fmt.Sprintf("(= (str.len %s) (s_len %s))", r.E, e))
	case from == "Slice" && to == "Slice":
		tr.define(fr, x, e)
	default:
		tr.defineHavoc(fr, x)
		tr.unsupported("convert:" + from + "->" + to)
	}
}

func (tr *Trans) convRange(r *Val, x *ssa.Convert) {
	// integer narrowing is treated as value-preserving; unsigned targets are assumed non-negative only
	// when the source is known non-negative (no fact added otherwise).
}

func (tr *Trans) sliceInstr(fr *Frame, x *ssa.Slice) {
	v := tr.val(fr, x.X)
	lo, hi := "0", ""
	if x.Low != nil {
		lo = tr.expr(tr.val(fr, x.Low))
	}
	if x.High != nil {
		hi = tr.expr(tr.val(fr, x.High))
	}
	switch u := x.X.Type().Underlying().(type) {
	case *types.Basic: // string
		s := tr.expr(v)
		if hi == "" {
			hi = "(str.len " + s + ")"
		}
		tr.assertSafe(fmt.Sprintf("(and (<= 0 %s) (<= %s %s) (<= %s (str.len %s)))", lo, lo, hi, hi, s), "slice-bounds", x.Pos(), "string slice bounds")
		tr.define(fr, x, fmt.Sprintf("(str.substr %s %s (- %s %s))", s, lo, hi, lo))
	case *types.Slice:
		s := tr.expr(v)
		if hi == "" {
			hi = "(s_len " + s + ")"
		}
		// cap is not modelled: re-slicing beyond len (within cap) is assumed not to occur
		tr.assertSafe(fmt.Sprintf("(and (<= 0 %s) (<= %s %s) (<= %s (s_len %s)))", lo, lo, hi, hi, s), "slice-bounds", x.Pos(), "slice bounds (len used for cap)")
		if lo == "0" {
			tr.define(fr, x, fmt.Sprintf("(mk_slice (s_arr %s) %s)", s, hi))
			return
		}
		// offset slices: fresh view with copied elements (aliasing with the original is dropped)
		r := tr.defineHavoc(fr, x)
		comp, srt := tr.eng.sorts.elemComp(u.Elem())
		q := tr.freshName("k")
		tr.cur.assume(fmt.Sprintf("(and (= (s_len %s) (- %s %s)) (> (s_arr %s) 0) (forall ((%s Int)) (! (=> (and (<= 0 %s) (< %s (- %s %s))) (= (select %s %s) (select %s (+ %s %s)))) :pattern ((select %s %s)))))",
			r.E, hi, lo, r.E, q, q, q, hi, lo, tr.sel(comp, srt, "(s_arr "+r.E+")"), q, tr.sel(comp, srt, "(s_arr "+s+")"), q, lo, tr.sel(comp, srt, "(s_arr "+r.E+")"), q))
		tr.note("offset slice at %s modelled as a fresh view", tr.eng.fset.Position(x.Pos()))
	case *types.Pointer: // pointer to array
		at := u.Elem().Underlying().(*types.Array)
		ref := tr.expr(v)
		if hi == "" {
			hi = fmt.Sprint(at.Len())
		}
		if lo != "0" {
			tr.defineHavoc(fr, x)
			tr.unsupported("array-slice-offset")
			return
		}
		tr.define(fr, x, fmt.Sprintf("(mk_slice %s %s)", ref, hi))
	default:
		tr.defineHavoc(fr, x)
		tr.unsupported("slice-of")
	}
}

func (tr *Trans) phi(fr *Frame, x *ssa.Phi) {
	// NaiveForm only produces phis for short-circuit boolean expressions and similar value merges.
	si := tr.sortOf(x.Type())
	name := sanitize(fr.prefix + x.Name())
	tr.il.declConst(name, si.Sort)
	r := &Val{K: VExpr, E: name, T: x.Type()}
	fr.vals[x] = r
	// equalities are attached to incoming edges by a mutable cell
	cell := tr.il.mvar("phi$"+name, si.Sort)
	tr.cur.assume(fmt.Sprintf("(= %s %s)", name, cur(cell)))
	fr.phis = append(fr.phis, phiRec{x, cell})
}

func (tr *Trans) rangeInstr(fr *Frame, x *ssa.Range) {
	v := tr.val(fr, x.X)
	if isString(x.X.Type()) {
		fr.vals[x] = &Val{K: VRange, RangeX: v, T: x.X.Type()}
		tr.unsupported("range-string")
		return
	}
	mi := tr.eng.sorts.mapInfo(x.X.Type())
	vis := tr.il.mvar(fmt.Sprintf("visited$%s%s", fr.prefix, x.Name()), "(Array "+mi.KSort+" Bool)")
	tr.cur.assign(vis, "((as const (Array "+mi.KSort+" Bool)) false)")
	cnt := tr.il.mvar(fmt.Sprintf("nvisited$%s%s", fr.prefix, x.Name()), "Int")
	tr.cur.assign(cnt, "0")
	fr.vals[x] = &Val{K: VRange, RangeX: v, T: x.X.Type(), Visited: vis}
	// range key for invariants: "visited" refers to this set
	tr.rangeSets = append(tr.rangeSets, vis)
}

func (tr *Trans) nextInstr(fr *Frame, x *ssa.Next) {
	it := tr.val(fr, x.Iter)
	tt := x.Type().(*types.Tuple)
	ok := tr.freshConst("next_ok", "Bool")
	okV := &Val{K: VExpr, E: ok, T: types.Typ[types.Bool]}
	if it.K != VRange || it.Visited == nil {
		k := tr.freshConst("next_k", tr.sortOf(tt.At(1).Type()).Sort)
		v := tr.freshConst("next_v", tr.sortOf(tt.At(2).Type()).Sort)
		fr.vals[x] = &Val{K: VTuple, T: x.Type(), Tuple: []*Val{okV, {K: VExpr, E: k, T: tt.At(1).Type()}, {K: VExpr, E: v, T: tt.At(2).Type()}}}
		return
	}
	mt := it.T
	mi := tr.eng.sorts.mapInfo(mt)
	m := tr.expr(it.RangeX)
	dc, ds := mi.domComp()
	vc, vs := mi.valComp()
	lc, ls := mi.lenComp()
	dom := tr.sel(dc, ds, m)
	k := tr.freshConst("next_k", mi.KSort)
	v := tr.freshConst("next_v", mi.VSort)
	vis := it.Visited
	cnt := tr.il.Vars[strings.Replace(vis.Name, "visited$", "nvisited$", 1)]
	q := tr.freshName("k")
	// ok  => k in dom, not yet visited, v = m[k]
	// !ok => every key in dom has been visited (and count == len)
	tr.cur.assume(fmt.Sprintf("(=> %s (and (select %s %s) (not (select %s %s)) (= %s (select %s %s))))",
		ok, dom, k, cur(vis), k, v, tr.sel(vc, vs, m), k))
	tr.cur.assume(fmt.Sprintf("(=> (not %s) (and (forall ((%s %s)) (! (=> (select %s %s) (select %s %s)) :pattern ((select %s %s)))) (= %s %s)))",
		ok, q, mi.KSort, dom, q, cur(vis), q, cur(vis), q, cur(cnt), tr.sel(lc, ls, m)))
	// the same fact triggered by a membership test on the map itself (one ite-free copy per heap)
	{
		hv := tr.heapVar(dc, ds)
		for _, alt := range [][2]string{
			{fmt.Sprintf("(> %s epoch)", m), fmt.Sprintf("(select %s %s)", cur(hv), m)},
			{fmt.Sprintf("(<= %s epoch)", m), fmt.Sprintf("(select %s %s)", heapOldName(tr.il, dc, ds), m)},
		} {
			tr.cur.assume(fmt.Sprintf("(=> (and (not %s) %s) (forall ((%s %s)) (! (=> (select %s %s) (select %s %s)) :pattern ((select %s %s)))))",
				ok, alt[0], q, mi.KSort, alt[1], q, cur(vis), q, alt[1], q))
		}
	}
	tr.cur.assume(fmt.Sprintf("(=> %s (< %s %s))", ok, cur(cnt), tr.sel(lc, ls, m)))
	tr.cur.assign(vis, fmt.Sprintf("(ite %s (store %s %s true) %s)", ok, cur(vis), k, cur(vis)))
	tr.cur.assign(cnt, fmt.Sprintf("(ite %s (+ %s 1) %s)", ok, cur(cnt), cur(cnt)))
	kv := &Val{K: VExpr, E: k, T: mi.K}
	vv := &Val{K: VExpr, E: v, T: mi.V}
	tr.typeFacts(vv)
	fr.vals[x] = &Val{K: VTuple, T: x.Type(), Tuple: []*Val{okV, kv, vv}}
}

func sortedKeys[V any](m map[string]V) []string {
	var ks []string
	for k := range m {
		ks = append(ks, k)
	}
	sort.Strings(ks)
	return ks
}

// closureInCell resolves loads of function-typed variables that hold a known closure:
// (a) a local with a single store of a MakeClosure; (b) a free variable of a closure that names a
// closure variable of the parent function (self or sibling), with bindings mapped by name.
func (tr *Trans) closureInCell(fr *Frame, addr ssa.Value) *Val {
	pt, ok := addr.Type().Underlying().(*types.Pointer)
	if !ok {
		return nil
	}
	if _, ok := pt.Elem().Underlying().(*types.Signature); !ok {
		return nil
	}
	switch a := addr.(type) {
	case *ssa.Alloc:
		if !singleStore(a) {
			return nil
		}
		for _, r := range *a.Referrers() {
			if st, ok := r.(*ssa.Store); ok && st.Addr == a {
				if mc, ok := st.Val.(*ssa.MakeClosure); ok {
					if v, ok := fr.vals[mc]; ok {
						return v
					}
				}
			}
		}
	case *ssa.FreeVar:
		if fr.parent != nil {
			return nil // inlined: bindings are the parent's cells, handled through cellVals
		}
		parent := fr.fn.Parent()
		if parent == nil {
			return nil
		}
		for _, g := range tr.eng.allFns {
			if g.Parent() == parent && closureVarName(g) == a.Name() {
				v := &Val{K: VClosure, Fn: g, T: pt.Elem(), E: "0"}
				for _, gfv := range g.FreeVars {
					var b *Val
					for i, myfv := range fr.fn.FreeVars {
						if myfv.Name() == gfv.Name() && i < len(fr.binds) {
							b = fr.binds[i]
						}
					}
					if b == nil {
						// the sibling captures a cell we cannot name: treat it as an unknown cell
						c := tr.freshConst("fvcell", "Int")
						b = &Val{K: VExpr, E: c, T: gfv.Type()}
					}
					v.Binds = append(v.Binds, b)
				}
				return v
			}
		}
	}
	return nil
}

// rangeIntBoundOf finds N in the lowering of "for i := range N": the hidden counter is compared
// as (counter+1 < N) on the back edge and (0 < N) on entry. The resulting invariant is checked, not assumed.
func (tr *Trans) rangeIntBoundOf(fr *Frame, al *ssa.Alloc) string {
	for _, r := range *al.Referrers() {
		ld, ok := r.(*ssa.UnOp)
		if !ok || ld.Op != token.MUL {
			continue
		}
		for _, r2 := range *ld.Referrers() {
			add, ok := r2.(*ssa.BinOp)
			if !ok || add.Op != token.ADD {
				continue
			}
			for _, r3 := range *add.Referrers() {
				if cmp, ok := r3.(*ssa.BinOp); ok && cmp.Op == token.LSS && cmp.X == add {
					return tr.expr(tr.val(fr, cmp.Y))
				}
			}
		}
	}
	return ""
}

// noReads: the read frame of the function, inherited by the closures lexically nested in it.
func (tr *Trans) noReads() map[string][]string {
	for f := tr.fn; f != nil; f = f.Parent() {
		if ct := tr.eng.contractFor(f); ct != nil && ct.NoReads != nil {
			return ct.NoReads
		}
	}
	return nil
}

// isolation: the function builds objects of the given struct types that must not share sub-objects of those
// types with anything that existed before the API call. Every store of a *T, []*T or map[..]*T is checked.
func (tr *Trans) isolatedType(t types.Type) string {
	if tr.contract == nil || len(tr.contract.Isolated) == 0 {
		return ""
	}
	for _, n := range tr.contract.Isolated {
		switch u := t.Underlying().(type) {
		case *types.Pointer:
			if tr.eng.sorts.typeName(u.Elem()) == n {
				return "ptr"
			}
		case *types.Slice:
			if p, ok := u.Elem().Underlying().(*types.Pointer); ok && tr.eng.sorts.typeName(p.Elem()) == n {
				return "slice"
			}
		case *types.Map:
			if p, ok := u.Elem().Underlying().(*types.Pointer); ok && tr.eng.sorts.typeName(p.Elem()) == n {
				return "map"
			}
		}
	}
	return ""
}

func (tr *Trans) checkIsolation(valT types.Type, val string, pos token.Pos, what string) {
	k := tr.isolatedType(valT)
	if k == "" {
		return
	}
	ref := val
	if k == "slice" {
		ref = "(s_arr " + val + ")"
	}
	tr.cur.assert(fmt.Sprintf("(or (= %s 0) (> %s epoch))", ref, ref), tr.ob("fresh", what, pos, "a stored "+tr.eng.sorts.typeName(valT)+" must be nil or allocated during this API call (no sharing with pre-existing trees)", tr.eng.propsFor(tr.name, "fresh")))
}

// atLine: checkpoint clauses `atline "text" label: cond`. The condition is asserted (and from then on assumed)
// immediately before the first instruction, in translation order, of the earliest source line with instructions
// at or after the first line of the function which contains the text. The text anchors the clause to a place in the source
// (typically the comment that opens the next section); a text that no longer occurs is contract drift.
func (tr *Trans) atLine(fr *Frame, ins ssa.Instruction) {
	pos := ins.Pos()
	if !pos.IsValid() || tr.cur == nil {
		return
	}
	p := tr.eng.fset.Position(pos)
	if tr.srcLines == nil {
		tr.srcLines = map[string][]string{}
		tr.atLineDone = map[*Clause]bool{}
	}
	lines, ok := tr.srcLines[p.Filename]
	if !ok {
		b, _ := os.ReadFile(p.Filename)
		lines = strings.Split(string(b), "\n")
		tr.srcLines[p.Filename] = lines
	}
	fstart := tr.eng.fset.Position(fr.fn.Pos()).Line
	for _, cl := range tr.contract.AtLines {
		if tr.atLineDone[cl] {
			continue
		}
		// the anchor line: first line of the function at or after its start that contains the text
		anchor := 0
		text, nth := cl.Callee, 1
		if k := strings.LastIndex(text, "#"); k > 0 {
			// "text#n": the n-th line of the function that contains the text
			if n, err := strconv.Atoi(text[k+1:]); err == nil && n >= 1 {
				text, nth = text[:k], n
			}
		}
		fend := len(lines)
		if syn := fr.fn.Syntax(); syn != nil {
			fend = tr.eng.fset.Position(syn.End()).Line
		}
		for i := fstart; i <= fend && i <= len(lines); i++ {
			if strings.Contains(lines[i-1], text) {
				nth--
				if nth == 0 {
					anchor = i
					break
				}
			}
		}
		if anchor == 0 {
			tr.atLineDone[cl] = true
			tr.eng.fatal("%s:%d: atline %q: no such source line in %s (contract drift)", tr.contract.File, cl.Line, cl.Callee, tr.name)
			continue
		}
		// the statement the checkpoint precedes: the earliest source line at or after the anchor that has
		// instructions of this function (block order is not source order: an if.done block precedes the
		// blocks nested in the branches, so "first instruction at or after the anchor" could be a later join)
		target := 0
		for _, b := range fr.fn.Blocks {
			for _, in := range b.Instrs {
				if ip := in.Pos(); ip.IsValid() {
					if q := tr.eng.fset.Position(ip); q.Filename == p.Filename && q.Line >= anchor && (target == 0 || q.Line < target) {
						target = q.Line
					}
				}
			}
		}
		if p.Line != target {
			continue
		}
		tr.atLineDone[cl] = true
		cl.Used = true
		sc := tr.pointScope(fr, pos)
		te, err := sc.elab(cl.E)
		if err != nil {
			tr.eng.fatal("%s:%d: atline %q: %v", tr.contract.File, cl.Line, cl.Callee, err)
			continue
		}
		props := cl.Tags
		if len(props) == 0 {
			props = tr.contract.Tags
		}
		tr.cur.assert(te.E, tr.restrict(tr.ob("atline", cl.Name, pos, cl.Src, props), cl))
	}
}
