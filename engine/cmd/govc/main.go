package main

import (
	"flag"
	"fmt"
	"os"
	"runtime"
	"sort"
	"strings"
	"sync"
	"time"

	"golang.org/x/tools/go/ssa"
)

var workDir string

func newEngine(repo, verif string) (*Engine, error) {
	e := &Engine{repo: repo, verifDir: verif, wsCache: map[*ssa.Function]map[string]bool{}}
	if err := e.load(); err != nil {
		return nil, err
	}
	if err := e.loadSpecs(); err != nil {
		return nil, err
	}
	return e, nil
}

// scan translates every function once to collect direct write sets and call edges.
func (e *Engine) scan() {
	e.scanMode = true
	for _, fn := range e.allFns {
		e.translate(fn)
	}
	e.scanMode = false
	e.closeFrameRules()
	e.errors = nil
	e.wsCache = map[*ssa.Function]map[string]bool{}
	e.defaults = map[string]int{}
}

func (e *Engine) background() string {
	sp := e.specPrelude() // may discover further boxed types
	aa := e.anyAxioms()
	return e.sorts.prelude() + sp + aa
}

type RunResult struct {
	Funcs []*FuncResult
	Wall  float64
}

// verifyFuncs translates and solves the given functions.
func (e *Engine) verifyFuncs(fns []*ssa.Function, opts SolveOpts, filter func(*Obligation) bool) *RunResult {
	t0 := time.Now()
	rr := &RunResult{}
	type item struct {
		res *FuncResult
		tr  *Trans
	}
	var items []item
	for _, fn := range fns {
		res, tr := e.translate(fn)
		items = append(items, item{res, tr})
		rr.Funcs = append(rr.Funcs, res)
	}
	bg := e.background() // after all translations: datatypes are discovered lazily
	var wg sync.WaitGroup
	for _, it := range items {
		if it.res.Err != "" || it.tr == nil {
			continue
		}
		vs := it.tr.il.genVC(bg+e.revealAsserts(it.tr.contract), func(decl string) string {
			// (declare-const |comp!old| sort)
			if i := strings.Index(decl, "!old|"); i > 0 {
				j := strings.Index(decl, "|")
				comp := decl[j+1 : i]
				return e.sorts.oldHeapAxiom(comp, "|"+comp+"!old|")
			}
			// (declare-const |comp@0| sort): entry version of a heap component
			if strings.HasPrefix(decl, "(declare-const |") && strings.Contains(decl, "@0| ") {
				j := strings.Index(decl, "|")
				k := strings.Index(decl, "@0|")
				comp := decl[j+1 : k]
				return e.sorts.entryHeapAxiom(comp, "|"+comp+"@0|", "|$alloc@0|")
			}
			return ""
		})
		{
			var keep []*Obligation
			for _, ob := range vs.Obs {
				if reason, ok := e.isTrusted(ob.Name); ok {
					it.res.Trusted = append(it.res.Trusted, ob.Name+" :: "+reason)
					continue
				}
				keep = append(keep, ob)
			}
			vs.Obs = keep
		}
		if filter != nil {
			var keep []*Obligation
			for _, ob := range vs.Obs {
				if filter(ob) {
					keep = append(keep, ob)
				}
			}
			vs.Obs = keep
		}
		it.res.Obs = vs.Obs
		it := it
		wg.Add(1)
		go func() {
			defer wg.Done()
			it.res.SolveSec = solveFunc(it.res.Key, vs, opts)
		}()
	}
	wg.Wait()
	rr.Wall = time.Since(t0).Seconds()
	return rr
}

func main() {
	if len(os.Args) < 2 {
		fmt.Fprintln(os.Stderr, "usage: govc <list|dump|verify|check> ...")
		os.Exit(2)
	}
	cmd := os.Args[1]
	fs := flag.NewFlagSet(cmd, flag.ExitOnError)
	repo := fs.String("repo", "/repo", "repository root")
	verif := fs.String("verif", "/verif", "verification directory")
	fnFlag := fs.String("fn", "", "comma separated function keys (default: all)")
	timeout := fs.Int("timeout", 10000, "per-obligation solver timeout (ms)")
	cross := fs.Bool("cross", true, "retry failures on the other solvers")
	obFilter := fs.String("ob", "", "only solve obligations whose name contains this text")
	keepOb := fs.String("keepob", "", "with -keep: also write the sliced query of obligations whose name contains this text")
	batch := fs.Int("batch", 12, "number of obligations proved per solver query (failures are retried one by one)")
	verbose := fs.Bool("v", false, "verbose")
	tier := fs.String("tier", "quick", "quick|thorough")
	keep := fs.String("keep", "", "keep solver files in this directory (default: temporary directory removed at exit)")
	fs.Parse(os.Args[2:])
	solveSem = make(chan struct{}, (runtime.NumCPU()*3+3)/4) // each slot may run two racing solver processes
	workDir = *keep
	if workDir == "" {
		d, err := os.MkdirTemp("", "govc-work-")
		if err != nil {
			fmt.Fprintln(os.Stderr, "govc:", err)
			os.Exit(2)
		}
		workDir = d
		defer os.RemoveAll(d)
	}
	e, err := newEngine(*repo, *verif)
	if err != nil {
		fmt.Fprintln(os.Stderr, "govc: load:", err)
		os.Exit(2)
	}
	var fns []*ssa.Function
	if *fnFlag == "" {
		if cmd == "verify" {
			e.scan()
			for _, fn := range e.allFns {
				if !e.skipStandalone(fn) {
					fns = append(fns, fn)
				}
			}
		} else {
			fns = e.allFns
		}
	} else {
		for _, k := range strings.Split(*fnFlag, ",") {
			fn := e.fns[k]
			if fn == nil {
				fmt.Fprintf(os.Stderr, "govc: unknown function %q\n", k)
				os.Exit(2)
			}
			fns = append(fns, fn)
		}
	}
	switch cmd {
	case "list":
		var ks []string
		for k := range e.fns {
			ks = append(ks, k)
		}
		sort.Strings(ks)
		for _, k := range ks {
			c := ""
			if e.contracts[k] != nil {
				c = "  [contract]"
			}
			fmt.Println(k + c)
		}
	case "dump":
		e.scan()
		for _, fn := range fns {
			res, tr := e.translate(fn)
			fmt.Printf("==== %s  err=%q notes=%v unsup=%v\n", res.Key, res.Err, res.Notes, res.Unsup)
			fmt.Printf("     writeset=%v\n", sortedKeys(e.writeSet(fn)))
			if tr != nil {
				fmt.Print(tr.il.dump())
			}
		}
		for _, m := range e.errors {
			fmt.Println("ERROR:", m)
		}
	case "verify":
		e.scan()
		opts := SolveOpts{WorkDir: workDir, Keep: *keep != "", TimeoutMs: *timeout, Cross: *cross, Batch: *batch, KeepOb: *keepOb}
		var flt func(*Obligation) bool
		if *obFilter != "" {
			parts := strings.Split(*obFilter, "|")
			flt = func(ob *Obligation) bool {
				for _, p := range parts {
					if strings.Contains(ob.Name, p) {
						return true
					}
				}
				return false
			}
		}
		rr := e.verifyFuncs(fns, opts, flt)
		nOb, nOK := 0, 0
		for _, fr := range rr.Funcs {
			if fr.Err != "" {
				fmt.Printf("FUNC %-40s ERROR %s\n", fr.Key, fr.Err)
				continue
			}
			ok := 0
			for _, ob := range fr.Obs {
				nOb++
				want := "unsat"
				if ob.Cover {
					want = "sat"
				}
				if ob.Status == want {
					ok++
					nOK++
				}
			}
			fmt.Printf("FUNC %-40s obligations=%d discharged=%d blocks=%d loops=%d solver=%.1fs unsup=%v\n", fr.Key, len(fr.Obs), ok, fr.NBlocks, fr.NLoops, fr.SolveSec, fr.Unsup)
			for _, ob := range fr.Obs {
				want := "unsat"
				if ob.Cover {
					want = "sat"
				}
				if ob.Status != want || *verbose {
					fmt.Printf("   %-8s %-70s %s  %s %.2fs | %s\n", ob.Status, ob.Name, ob.Pos, ob.Solver, ob.Secs, ob.Detail)
				}
			}
		}
		for _, m := range e.errors {
			fmt.Println("ERROR:", m)
		}
		var dk []string
		for k := range e.defaults {
			dk = append(dk, k)
		}
		sort.Strings(dk)
		fmt.Printf("external callees without contract (default: writes only through pointer args): %s\n", strings.Join(dk, ", "))
		fmt.Printf("TOTAL obligations=%d discharged=%d wall=%.1fs\n", nOb, nOK, rr.Wall)
	case "check":
		code := runCheck(e, fs.Args(), *tier, *timeout, *verif)
		if *keep == "" {
			os.RemoveAll(workDir)
		}
		os.Exit(code)
	case "replay":
		code := runReplay(e, fs.Args(), *timeout, *verif)
		if *keep == "" {
			os.RemoveAll(workDir)
		}
		os.Exit(code)
	default:
		fmt.Fprintln(os.Stderr, "unknown command", cmd)
		os.Exit(2)
	}
}
