package main

import (
	"fmt"
	"go/ast"
	"go/token"
	"go/types"
	"os"
	"path/filepath"
	"sort"
	"strings"

	"golang.org/x/tools/go/packages"
	"golang.org/x/tools/go/ssa"
	"golang.org/x/tools/go/ssa/ssautil"
)

const targetPath = "github.com/google/jsonschema-go/jsonschema"

type Engine struct {
	repo      string
	verifDir  string
	fset      *token.FileSet
	prog      *ssa.Program
	pkg       *ssa.Package
	tpkg      *packages.Package
	sorts     *Sorts
	specFuncs map[string]*SpecFunc
	smtFuncs  map[string]string
	smtConsts map[string]string
	ghost     map[string]string // ghost heap components: name -> sort
	preds     map[string]*SpecFunc
	globalInv []*Clause
	trusted   []TrustedOb
	trustedHit map[string]int
	usedContracts map[string]bool
	inlinedFns map[*ssa.Function]bool
	opaqueUse map[*ssa.Function]bool
	specFiles []*SpecFile
	contracts map[string]*Contract
	fns       map[string]*ssa.Function // by key
	keys      map[*ssa.Function]string
	allFns    []*ssa.Function
	writes    map[*ssa.Function]map[string]bool
	calls     map[*ssa.Function]map[*ssa.Function]bool
	wsCache   map[*ssa.Function]map[string]bool
	compSorts map[string]string
	defaults  map[string]int
	errors    []string
	recClos   map[*ssa.Function]bool
	propRules []propRule
	scanMode  bool
	frameClosed bool
}

type propRule struct {
	fnGlob, kindGlob string
	props            []string
}

func (e *Engine) fatal(f string, a ...any) {
	msg := fmt.Sprintf(f, a...)
	for _, m := range e.errors {
		if m == msg {
			return
		}
	}
	e.errors = append(e.errors, msg)
}

func (e *Engine) load() error {
	cfg := &packages.Config{
		Mode:       packages.LoadAllSyntax,
		Dir:        filepath.Join(e.repo, "jsonschema"),
		BuildFlags: []string{"-tags=verif"},
		Env:        append(os.Environ(), "GOFLAGS=-mod=mod", "GOPROXY=off", "GOSUMDB=off", "GOTOOLCHAIN=local"),
	}
	pkgs, err := packages.Load(cfg, ".")
	if err != nil {
		return err
	}
	if len(pkgs) != 1 {
		return fmt.Errorf("expected one package, got %d", len(pkgs))
	}
	if len(pkgs[0].Errors) > 0 {
		return fmt.Errorf("package errors: %v", pkgs[0].Errors)
	}
	e.tpkg = pkgs[0]
	e.fset = pkgs[0].Fset
	prog, spkgs := ssautil.AllPackages(pkgs, ssa.NaiveForm|ssa.GlobalDebug|ssa.InstantiateGenerics)
	prog.Build()
	e.prog = prog
	e.pkg = spkgs[0]
	e.sorts = newSorts()
	e.fns = map[string]*ssa.Function{}
	e.keys = map[*ssa.Function]string{}
	e.writes = map[*ssa.Function]map[string]bool{}
	e.calls = map[*ssa.Function]map[*ssa.Function]bool{}
	e.compSorts = map[string]string{}
	e.defaults = map[string]int{}
	e.recClos = map[*ssa.Function]bool{}
	e.usedContracts = map[string]bool{}
	e.inlinedFns = map[*ssa.Function]bool{}
	e.opaqueUse = map[*ssa.Function]bool{}
	// enumerate functions of the target package (including closures and generic instances)
	var fns []*ssa.Function
	for fn := range ssautil.AllFunctions(prog) {
		if e.inTarget(fn) && fn.Blocks != nil {
			fns = append(fns, fn)
		}
	}
	sort.Slice(fns, func(i, j int) bool {
		if fns[i].Pos() != fns[j].Pos() {
			return fns[i].Pos() < fns[j].Pos()
		}
		return fns[i].String() < fns[j].String()
	})
	for _, fn := range fns {
		if fn.Synthetic != "" && !strings.Contains(fn.Synthetic, "range-over-func") && !strings.Contains(fn.Synthetic, "instance of") && fn.Synthetic != "package initializer" {
			continue // wrappers, bound methods, thunks
		}
		if fn.TypeParams().Len() > 0 && len(fn.TypeArgs()) == 0 {
			// generic origin: verified through its instances when there are any
			hasInst := false
			for _, g := range fns {
				if g.Origin() == fn {
					hasInst = true
				}
			}
			if hasInst {
				continue
			}
		}
		e.allFns = append(e.allFns, fn)
		k := e.fnKey(fn)
		if fn.Origin() != nil {
			var ta []string
			for _, t := range fn.TypeArgs() {
				ts := e.sorts.typeName(t)
				if len(ts) > 24 {
					ts = fmt.Sprintf("%s~%d", ts[:12], len(ts))
				}
				ta = append(ta, ts)
			}
			k = k + "[" + strings.Join(ta, ",") + "]"
		}
		if _, dup := e.fns[k]; dup {
			k = k + "@" + fn.String()
		}
		e.fns[k] = fn
		e.keys[fn] = k
	}
	e.findRecursiveClosures()
	return nil
}

func (e *Engine) inTarget(fn *ssa.Function) bool {
	if fn == nil {
		return false
	}
	for f := fn; f != nil; f = f.Parent() {
		if f.Pkg != nil {
			return f.Pkg.Pkg.Path() == targetPath
		}
		if o := f.Origin(); o != nil && o.Pkg != nil {
			return o.Pkg.Pkg.Path() == targetPath
		}
	}
	return false
}

func (e *Engine) fnKey(fn *ssa.Function) string {
	if k, ok := e.keys[fn]; ok {
		return k
	}
	if fn.Parent() != nil {
		pk := e.fnKey(fn.Parent())
		name := closureVarName(fn)
		if name == "" {
			n := fn.Name()
			if i := strings.LastIndex(n, "$"); i >= 0 {
				name = n[i+1:]
			}
		}
		return pk + "$" + name
	}
	if o := fn.Origin(); o != nil {
		return e.fnKey(o)
	}
	if fn.Pkg != nil && fn.Pkg.Pkg.Path() == targetPath {
		return fn.RelString(fn.Pkg.Pkg)
	}
	return fn.String()
}

// closureVarName returns the name of the local variable a closure is assigned to, if any.
func closureVarName(fn *ssa.Function) string {
	p := fn.Parent()
	for _, b := range p.Blocks {
		for _, ins := range b.Instrs {
			mc, ok := ins.(*ssa.MakeClosure)
			if !ok || mc.Fn != fn {
				continue
			}
			for _, r := range *mc.Referrers() {
				if st, ok := r.(*ssa.Store); ok && st.Val == mc {
					if al, ok := st.Addr.(*ssa.Alloc); ok && al.Comment != "" {
						return al.Comment
					}
				}
			}
		}
	}
	return ""
}

func (e *Engine) findRecursiveClosures() {
	// a closure is recursive if its body loads a free variable cell that is (only) assigned the closure itself
	for _, fn := range e.allFns {
		if fn.Parent() == nil {
			continue
		}
		name := closureVarName(fn)
		if name == "" {
			continue
		}
		for _, fv := range fn.FreeVars {
			if fv.Name() == name {
				e.recClos[fn] = true
			}
		}
	}
}

func (e *Engine) isRecursiveClosure(fn *ssa.Function) bool { return e.recClos[fn] }

func (e *Engine) contractFor(fn *ssa.Function) *Contract {
	if fn == nil {
		return nil
	}
	if c := e.contracts[e.fnKey(fn)]; c != nil {
		return c
	}
	if o := fn.Origin(); o != nil {
		return e.contracts[e.fnKey(o)]
	}
	return nil
}

func (e *Engine) recordWrite(fn *ssa.Function, comp string) {
	m := e.writes[fn]
	if m == nil {
		m = map[string]bool{}
		e.writes[fn] = m
	}
	m[comp] = true
}

func (e *Engine) recordCall(from, to *ssa.Function) {
	m := e.calls[from]
	if m == nil {
		m = map[*ssa.Function]bool{}
		e.calls[from] = m
	}
	m[to] = true
}

// writeSet returns the transitive inferred write set (component names) of fn.
func (e *Engine) writeSet(fn *ssa.Function) map[string]bool {
	if e.scanMode {
		return map[string]bool{}
	}
	if ws, ok := e.wsCache[fn]; ok {
		return ws
	}
	out := map[string]bool{}
	seen := map[*ssa.Function]bool{}
	var visit func(f *ssa.Function)
	visit = func(f *ssa.Function) {
		if seen[f] {
			return
		}
		seen[f] = true
		for c := range e.writes[f] {
			out[c] = true
		}
		for g := range e.calls[f] {
			visit(g)
		}
	}
	visit(fn)
	// cells of the callee itself are not visible to callers
	for c := range out {
		if strings.HasPrefix(c, "c$") {
			delete(out, c)
		}
	}
	e.wsCache[fn] = out
	return out
}

func (e *Engine) compSort(comp string) string {
	if s, ok := e.ghost[comp]; ok {
		return s
	}
	return e.compSorts[comp]
}

func (e *Engine) noteDefault(key string) { e.defaults[key]++ }

// locComps resolves "x.f" in a modifies clause to heap component names.
func (e *Engine) locComps(base TExpr, field string) []string {
	if base.GoT == nil {
		return nil
	}
	switch u := base.GoT.Underlying().(type) {
	case *types.Pointer:
		if st, ok := u.Elem().Underlying().(*types.Struct); ok {
			if field == "*" {
				var out []string
				for i := 0; i < st.NumFields(); i++ {
					c, s := e.sorts.fieldComp(u.Elem(), i)
					e.compSorts[c] = s
					out = append(out, c)
				}
				return out
			}
			idx, _ := findField(st, field)
			if idx >= 0 {
				c, s := e.sorts.fieldComp(u.Elem(), idx)
				e.compSorts[c] = s
				return []string{c}
			}
		}
		if field == "val" {
			c, s := e.sorts.cellComp(u.Elem())
			e.compSorts[c] = s
			return []string{c}
		}
	case *types.Map:
		if field == "entries" {
			mi := e.sorts.mapInfo(base.GoT)
			d, ds := mi.domComp()
			v, vs := mi.valComp()
			l, ls := mi.lenComp()
			e.compSorts[d], e.compSorts[v], e.compSorts[l] = ds, vs, ls
			return []string{d, v, l}
		}
	case *types.Slice:
		if field == "elems" {
			c, s := e.sorts.elemComp(u.Elem())
			e.compSorts[c] = s
			return []string{c}
		}
	}
	e.fatal("cannot resolve modifies location .%s on %v", field, base.GoT)
	return nil
}

// isOpaque: a library struct type whose fields are not modelled (its objects are bare references).
func (e *Engine) isOpaque(t types.Type) bool {
	named, ok := t.(*types.Named)
	return ok && opaqueExternal[e.sorts.typeName(named)]
}

func (e *Engine) initOpaque(tr *Trans, named *types.Named, ref string) {
	// zero value facts for opaque library objects allocated locally
	switch e.sorts.typeName(named) {
	case "maphash.Hash":
		if srt, ok := e.ghost["HashStream"]; ok {
			tr.upd("HashStream", srt, ref, "hs_empty")
		}
	case "bytes.Buffer":
		if srt, ok := e.ghost["BufVal"]; ok {
			tr.upd("BufVal", srt, ref, "bs_empty")
		}
	}
}

func globMatch(pat, s string) bool {
	if pat == "*" {
		return true
	}
	parts := strings.Split(pat, "*")
	if len(parts) == 1 {
		return pat == s
	}
	if !strings.HasPrefix(s, parts[0]) {
		return false
	}
	s = s[len(parts[0]):]
	for i := 1; i < len(parts); i++ {
		p := parts[i]
		if i == len(parts)-1 {
			return strings.HasSuffix(s, p)
		}
		j := strings.Index(s, p)
		if j < 0 {
			return false
		}
		s = s[j+len(p):]
	}
	return true
}

func (e *Engine) propsFor(fn, kind string) []string {
	var out []string
	seen := map[string]bool{}
	for _, r := range e.propRules {
		if globMatch(r.fnGlob, fn) && globMatch(r.kindGlob, kind) {
			for _, p := range r.props {
				if !seen[p] {
					seen[p] = true
					out = append(out, p)
				}
			}
		}
	}
	return out
}

// closeFrameRules extends the frame rules of props.map (kinds modifies / frame / modifies-global) along the call
// graph found by the scan pass: if a function is under a frame property, so is every function of the package that
// it calls (transitively), whether or not props.map names it. A helper introduced later — or a callee that has
// no contract and is therefore only havoc'd at the call site — cannot escape the no-write obligations that way.
func (e *Engine) closeFrameRules() {
	if e.frameClosed {
		return
	}
	e.frameClosed = true
	byKey := map[string]*ssa.Function{}
	for _, fn := range e.allFns {
		byKey[e.fnKey(fn)] = fn
	}
	var extra []propRule
	for _, r := range e.propRules {
		if r.kindGlob != "modifies" && r.kindGlob != "frame" && r.kindGlob != "modifies-global" {
			continue
		}
		seen := map[*ssa.Function]bool{}
		var work []*ssa.Function
		for k, fn := range byKey {
			if globMatch(r.fnGlob, k) {
				seen[fn] = true
				work = append(work, fn)
			}
		}
		for len(work) > 0 {
			f := work[len(work)-1]
			work = work[:len(work)-1]
			for g := range e.calls[f] {
				if !seen[g] && e.inTarget(g) {
					seen[g] = true
					work = append(work, g)
					extra = append(extra, propRule{fnGlob: e.fnKey(g), kindGlob: r.kindGlob, props: r.props})
				}
			}
		}
	}
	e.propRules = append(e.propRules, extra...)
}

// ---- spec loading ----

func (e *Engine) loadSpecs() error {
	e.specFuncs = map[string]*SpecFunc{}
	e.smtFuncs = map[string]string{}
	e.smtConsts = map[string]string{}
	e.ghost = map[string]string{}
	e.preds = map[string]*SpecFunc{}
	e.trustedHit = map[string]int{}
	e.contracts = map[string]*Contract{}
	files, _ := filepath.Glob(filepath.Join(e.verifDir, "spec", "*.gspec"))
	sort.Strings(files)
	for _, f := range files {
		b, err := os.ReadFile(f)
		if err != nil {
			return err
		}
		sf, err := parseSpecFile(string(b), "", filepath.Base(f), true)
		if err != nil {
			return err
		}
		e.addSpecFile(sf)
	}
	// repository contracts
	cf := filepath.Join(e.repo, "jsonschema", "contracts_verif.go")
	if b, err := os.ReadFile(cf); err == nil {
		sf, err := parseSpecFile(string(b), "//@", "contracts_verif.go", false)
		if err != nil {
			return err
		}
		e.addSpecFile(sf)
	}
	// property rules
	if b, err := os.ReadFile(filepath.Join(e.verifDir, "spec", "props.map")); err == nil {
		for _, ln := range strings.Split(string(b), "\n") {
			f := strings.Fields(ln)
			if len(f) != 3 || strings.HasPrefix(ln, "#") {
				continue
			}
			e.propRules = append(e.propRules, propRule{f[0], f[1], strings.Split(f[2], ",")})
		}
	}
	return nil
}

func (e *Engine) addSpecFile(sf *SpecFile) {
	e.specFiles = append(e.specFiles, sf)
	for _, f := range sf.Funcs {
		e.specFuncs[f.Name] = f
	}
	for _, p := range sf.Preds {
		e.preds[p.Name] = p
	}
	e.globalInv = append(e.globalInv, sf.GlobalInv...)
	e.trusted = append(e.trusted, sf.Trusted...)
	for _, raw := range sf.Smt {
		e.scanSmtDecl(raw)
	}
	for _, c := range sf.Contracts {
		if old, dup := e.contracts[c.Key]; dup {
			e.fatal("duplicate contract for %s (%s:%d and %s:%d)", c.Key, old.File, old.Line, c.File, c.Line)
		}
		e.contracts[c.Key] = c
	}
}

// scanSmtDecl records names declared in raw SMT text so that the elaborator can type them.
func (e *Engine) scanSmtDecl(raw string) {
	toks := strings.Fields(strings.NewReplacer("(", " ( ", ")", " ) ").Replace(raw))
	if len(toks) < 3 {
		return
	}
	switch toks[1] {
	case "declare-const":
		e.smtConsts[toks[2]] = strings.Join(toks[3:len(toks)-1], " ")
	case "declare-fun":
		// (declare-fun name ( args ) ret )
		depth := 0
		for i := 3; i < len(toks); i++ {
			if toks[i] == "(" {
				depth++
			} else if toks[i] == ")" {
				depth--
				if depth == 0 {
					e.smtFuncs[toks[2]] = normSort(strings.Join(toks[i+1:len(toks)-1], " "))
					break
				}
			}
		}
	case "define-fun":
		// (define-fun name ( (a S) ... ) Ret body )
		depth := 0
		for i := 3; i < len(toks); i++ {
			if toks[i] == "(" {
				depth++
			} else if toks[i] == ")" {
				depth--
				if depth == 0 {
					// return sort: one token or a balanced group
					j := i + 1
					if j < len(toks) && toks[j] == "(" {
						d := 0
						k := j
						for ; k < len(toks); k++ {
							if toks[k] == "(" {
								d++
							} else if toks[k] == ")" {
								d--
								if d == 0 {
									break
								}
							}
						}
						e.smtFuncs[toks[2]] = normSort(strings.Join(toks[j:k+1], " "))
					} else if j < len(toks) {
						e.smtFuncs[toks[2]] = toks[j]
					}
					break
				}
			}
		}
	case "declare-heap":
		// pseudo declaration of a ghost heap component: (declare-heap Name Sort)
		e.ghost[toks[2]] = normSort(strings.Join(toks[3:len(toks)-1], " "))
	case "declare-datatypes", "declare-datatype":
		// record constructors and accessors:  ( ctor ( acc Sort ) ... )
		e.scanDatatype(raw)
	}
}

func normSort(s string) string {
	s = strings.ReplaceAll(s, "( ", "(")
	s = strings.ReplaceAll(s, " )", ")")
	return strings.TrimSpace(s)
}

// scanDatatype handles the restricted form used in spec files:
// (declare-datatypes ((T 0)) (((c1) (c2 (a1 S1) (a2 S2)))))
func (e *Engine) scanDatatype(raw string) {
	// find sort names
	i := strings.Index(raw, "((")
	if i < 0 {
		return
	}
	// sorts: sequence of (Name 0)
	var sortsN []string
	j := i + 1
	for j < len(raw) && raw[j] == '(' {
		k := strings.Index(raw[j:], ")")
		f := strings.Fields(raw[j+1 : j+k])
		sortsN = append(sortsN, f[0])
		j += k + 1
		for j < len(raw) && raw[j] == ' ' {
			j++
		}
	}
	// after the closing paren of the sort list comes the list of constructor lists
	rest := raw[j+1:]
	// parse s-expressions
	toks := strings.Fields(strings.NewReplacer("(", " ( ", ")", " ) ").Replace(rest))
	pos := 0
	var parse func() any
	parse = func() any {
		if toks[pos] == "(" {
			pos++
			var l []any
			for toks[pos] != ")" {
				l = append(l, parse())
			}
			pos++
			return l
		}
		t := toks[pos]
		pos++
		return t
	}
	top, ok := parse().([]any)
	if !ok {
		return
	}
	for di, d := range top {
		if di >= len(sortsN) {
			break
		}
		ctors, _ := d.([]any)
		for _, c := range ctors {
			cl, _ := c.([]any)
			if len(cl) == 0 {
				continue
			}
			cname, _ := cl[0].(string)
			if len(cl) == 1 {
				e.smtConsts[cname] = sortsN[di]
			} else {
				e.smtFuncs[cname] = sortsN[di]
			}
			for _, a := range cl[1:] {
				al, _ := a.([]any)
				if len(al) >= 2 {
					an, _ := al[0].(string)
					e.smtFuncs[an] = sexprString(al[1])
				}
			}
		}
	}
}

func sexprString(x any) string {
	switch v := x.(type) {
	case string:
		return v
	case []any:
		var parts []string
		for _, p := range v {
			parts = append(parts, sexprString(p))
		}
		return "(" + strings.Join(parts, " ") + ")"
	}
	return ""
}

// specPrelude renders sorts, raw SMT, spec functions and axioms.
func (e *Engine) specPrelude() string {
	var sb strings.Builder
	sc := &Scope{vars: map[string]TExpr{}, eng: e}
	for _, sf := range e.specFiles {
		for _, s := range sf.Sorts {
			sb.WriteString("(declare-sort " + s + " 0)\n")
		}
		for _, raw := range sf.Smt {
			if strings.HasPrefix(raw, "(declare-heap") {
				continue
			}
			sb.WriteString(raw + "\n")
		}
	}
	// addresses of package-level variables: distinct non-nil references
	var gnames []string
	for _, m := range e.pkg.Members {
		if g, ok := m.(*ssa.Global); ok {
			gnames = append(gnames, "gaddr_G_"+sanitize(g.Pkg.Pkg.Name()+"."+g.Name()))
		}
	}
	sort.Strings(gnames)
	for _, g := range gnames {
		sb.WriteString(fmt.Sprintf("(declare-const %s Int)\n(assert (> %s 0))\n", g, g))
	}
	if len(gnames) > 1 {
		sb.WriteString("(assert (distinct " + strings.Join(gnames, " ") + "))\n")
	}
	for _, sf := range e.specFiles {
		for _, f := range sf.Funcs {
			var ps, pd []string
			c := sc.child()
			for _, p := range f.Params {
				srt := userSort(p.Sort)
				ps = append(ps, srt)
				pd = append(pd, fmt.Sprintf("(%s %s)", p.Name+"!p", srt))
				c.vars[p.Name] = TExpr{E: p.Name + "!p", Sort: srt}
			}
			if f.Body == nil {
				sb.WriteString(fmt.Sprintf("(declare-fun %s (%s) %s)\n", f.Name, strings.Join(ps, " "), userSort(f.Ret)))
				continue
			}
			te, err := c.elab(f.Body)
			if err != nil {
				e.fatal("spec func %s: %v", f.Name, err)
				continue
			}
			sb.WriteString(fmt.Sprintf("(define-fun %s (%s) %s %s)\n", f.Name, strings.Join(pd, " "), userSort(f.Ret), te.E))
		}
	}
	for _, sf := range e.specFiles {
		for _, a := range sf.Axioms {
			te, err := sc.elab(a.E)
			if err != nil {
				e.fatal("axiom %s: %v", a.Name, err)
				continue
			}
			if a.Opaque {
				fl := "reveal$" + sanitize(a.Name)
				sb.WriteString(fmt.Sprintf("(declare-const %s Bool)\n(assert (! (=> %s %s) :named ax_%s))\n", fl, fl, te.E, sanitize(a.Name)))
				continue
			}
			sb.WriteString(fmt.Sprintf("(assert (! %s :named ax_%s))\n", te.E, sanitize(a.Name)))
		}
	}
	return sb.String()
}

// revealAsserts fixes, for one function, which opaque axioms are available.
func (e *Engine) revealAsserts(ct *Contract) string {
	var sb strings.Builder
	for _, sf := range e.specFiles {
		for _, a := range sf.Axioms {
			if !a.Opaque {
				continue
			}
			on := false
			if ct != nil {
				for _, r := range ct.Reveal {
					if r == a.Name {
						on = true
					}
				}
			}
			if on {
				sb.WriteString("(assert reveal$" + sanitize(a.Name) + ")\n")
			} else {
				sb.WriteString("(assert (not reveal$" + sanitize(a.Name) + "))\n")
			}
		}
	}
	return sb.String()
}

// ---- loop keys from the AST ----

type astLoop struct {
	node     ast.Node
	pos, end token.Pos
	key      string
	assigned bool
	owner    *ILLoop
}

func (e *Engine) astLoops(fn *ssa.Function) []*astLoop {
	root := fn
	for root.Parent() != nil {
		root = root.Parent()
	}
	syn := root.Syntax()
	if syn == nil {
		if o := root.Origin(); o != nil {
			syn = o.Syntax()
		}
	}
	if syn == nil {
		return nil
	}
	var out []*astLoop
	ast.Inspect(syn, func(n ast.Node) bool {
		switch x := n.(type) {
		case *ast.RangeStmt:
			out = append(out, &astLoop{node: x, pos: x.Pos(), end: x.End(), key: "range " + types.ExprString(x.X)})
		case *ast.ForStmt:
			k := "for"
			if x.Cond != nil {
				k = "for " + types.ExprString(x.Cond)
			}
			out = append(out, &astLoop{node: x, pos: x.Pos(), end: x.End(), key: k})
		}
		return true
	})
	return out
}

// bindLoops assigns a source key to every IL loop.
func (tr *Trans) bindLoops() {
	loops := tr.eng.astLoops(tr.fn)
	// outermost IL loops first (largest bodies)
	idx := make([]int, len(tr.il.Loops))
	for i := range idx {
		idx[i] = i
	}
	sort.SliceStable(idx, func(a, b int) bool { return len(tr.il.Loops[idx[a]].Body) > len(tr.il.Loops[idx[b]].Body) })
	for _, i := range idx {
		l := tr.il.Loops[i]
		var ps []token.Pos
		for b := range l.Body {
			if b.Owner != l.Head.Owner {
				continue // code inlined from closures defined elsewhere
			}
			for _, p := range b.PosList {
				ps = append(ps, token.Pos(p))
			}
		}
		if len(ps) == 0 {
			continue
		}
		var best *astLoop
		for _, al := range loops {
			if al.assigned {
				continue
			}
			all := true
			for _, p := range ps {
				if p < al.pos || p > al.end {
					all = false
					break
				}
			}
			if !all {
				continue
			}
			// IL loops are processed outermost first, so the outermost unassigned candidate is the match
			if best == nil || (al.pos <= best.pos && al.end >= best.end) {
				best = al
			}
		}
		if best != nil {
			best.assigned = true
			best.owner = l
			l.Key = best.key
			l.Pos = best.pos
			continue
		}
		// a further inlined copy of a closure's loop (the closure is called at several places): the syntactic
		// loop is already bound to the first copy, recognised by identical source positions; it shares the key
		// and with it the loop clauses of the contract
		for _, al := range loops {
			if !al.assigned || al.owner == nil || minPos(al.owner) != minPos(l) || ownerFn(al.owner.Head.Owner) != ownerFn(l.Head.Owner) || ownerFn(l.Head.Owner) == tr.fn {
				continue
			}
			all := true
			for _, p := range ps {
				if p < al.pos || p > al.end {
					all = false
					break
				}
			}
			if all && (best == nil || (al.pos >= best.pos && al.end <= best.end)) {
				best = al
			}
		}
		if best != nil {
			l.Key = best.key
			l.Pos = best.pos
			l.CopyOf = best.owner
		}
	}
	// disambiguate duplicate keys by ordinal in source order
	count := map[string]int{}
	byHead := append([]*ILLoop{}, tr.il.Loops...)
	sort.SliceStable(byHead, func(a, b int) bool { return minPos(byHead[a]) < minPos(byHead[b]) })
	for _, l := range byHead {
		if l.Key == "" {
			continue
		}
		if l.CopyOf != nil {
			continue
		}
		count[l.Key]++
		if count[l.Key] > 1 {
			l.Key = fmt.Sprintf("%s#%d", l.Key, count[l.Key])
		}
	}
	for _, l := range byHead {
		if l.CopyOf != nil {
			l.Key = l.CopyOf.Key
		}
	}
}

func ownerFn(o any) *ssa.Function {
	if f, ok := o.(*Frame); ok && f != nil {
		return f.fn
	}
	return nil
}

func minPos(l *ILLoop) int {
	m := 1 << 60
	for b := range l.Body {
		if b.Owner != l.Head.Owner {
			continue
		}
		for _, p := range b.PosList {
			if p < m {
				m = p
			}
		}
	}
	return m
}


// goTypeOf resolves a type expression used in specifications (*Schema, []string, map[string]bool, int ...).
func (e *Engine) goTypeOf(name string) types.Type {
	switch {
	case strings.HasPrefix(name, "*"):
		if t := e.goTypeOf(name[1:]); t != nil {
			return types.NewPointer(t)
		}
		return nil
	case strings.HasPrefix(name, "[]"):
		if t := e.goTypeOf(name[2:]); t != nil {
			return types.NewSlice(t)
		}
		return nil
	case strings.HasPrefix(name, "map["):
		depth := 0
		for i := 3; i < len(name); i++ {
			if name[i] == '[' {
				depth++
			} else if name[i] == ']' {
				depth--
				if depth == 0 {
					k, v := e.goTypeOf(name[4:i]), e.goTypeOf(name[i+1:])
					if k != nil && v != nil {
						return types.NewMap(k, v)
					}
					return nil
				}
			}
		}
		return nil
	}
	if i := strings.LastIndex(name, "."); i > 0 {
		pn, tn := name[:i], name[i+1:]
		for _, imp := range e.tpkg.Types.Imports() {
			if imp.Name() == pn || imp.Path() == pn {
				if obj := imp.Scope().Lookup(tn); obj != nil {
					if t, ok := obj.(*types.TypeName); ok {
						return t.Type()
					}
				}
			}
		}
		return nil
	}
	if name == "any" {
		return types.Universe.Lookup("any").Type()
	}
	if obj := e.tpkg.Types.Scope().Lookup(name); obj != nil {
		if tn, ok := obj.(*types.TypeName); ok {
			return tn.Type()
		}
	}
	if obj := types.Universe.Lookup(name); obj != nil {
		if tn, ok := obj.(*types.TypeName); ok {
			return tn.Type()
		}
	}
	return nil
}

// isTrusted reports whether an obligation is on the explicit trusted list (assumed, reported, never counted as proved).
func (e *Engine) isTrusted(name string) (string, bool) {
	for _, t := range e.trusted {
		if globMatch(t.Glob, name) {
			e.trustedHit[t.Glob+" :: "+t.Reason]++
			return t.Reason, true
		}
	}
	return "", false
}

// globalVar resolves a package-level variable of the target package.
func (e *Engine) globalVar(name string) *ssa.Global {
	if m, ok := e.pkg.Members[name]; ok {
		if g, ok := m.(*ssa.Global); ok {
			return g
		}
	}
	return nil
}

// anyAxioms: reflect.ValueOf facts for every dynamic type that is boxed into an interface in the package.
func (e *Engine) anyAxioms() string {
	var sb strings.Builder
	kindOf := func(t types.Type) int {
		switch u := t.Underlying().(type) {
		case *types.Basic:
			switch u.Kind() {
			case types.Bool:
				return 1
			case types.Int:
				return 2
			case types.Int8:
				return 3
			case types.Int16:
				return 4
			case types.Int32:
				return 5
			case types.Int64:
				return 6
			case types.Uint:
				return 7
			case types.Uint8:
				return 8
			case types.Uint16:
				return 9
			case types.Uint32:
				return 10
			case types.Uint64:
				return 11
			case types.Uintptr:
				return 12
			case types.Float32:
				return 13
			case types.Float64:
				return 14
			case types.Complex64:
				return 15
			case types.Complex128:
				return 16
			case types.String:
				return 24
			case types.UnsafePointer:
				return 26
			}
		case *types.Array:
			return 17
		case *types.Chan:
			return 18
		case *types.Signature:
			return 19
		case *types.Map:
			return 21
		case *types.Pointer:
			return 22
		case *types.Slice:
			return 23
		case *types.Struct:
			return 25
		case *types.Interface:
			return 20
		}
		return -1
	}
	if _, ok := e.specFuncs["rvof"]; !ok {
		return ""
	}
	for _, c := range e.sorts.anyList {
		k := kindOf(c.T)
		if k < 0 || c.Sort == "Any" || c.Sort == "RT" {
			continue
		}
		sb.WriteString(fmt.Sprintf("(assert (forall ((x %s)) (! (= (kind (rvof (%s x))) %d) :pattern ((rvof (%s x))))))\n", c.Sort, c.Name, k, c.Name))
		switch k {
		case 24:
			sb.WriteString(fmt.Sprintf("(assert (forall ((x %s)) (! (= (rvstr (rvof (%s x))) x) :pattern ((rvof (%s x))))))\n", c.Sort, c.Name, c.Name))
			if e.sorts.typeName(c.T) == "string" {
				sb.WriteString(fmt.Sprintf("(assert (forall ((x String)) (! (and (= (rvof (%s x)) (rvofstr x)) (= (rtype (rvof (%s x))) T_string)) :pattern ((rvof (%s x))))))\n", c.Name, c.Name, c.Name))
			}
		case 22:
			if pt, ok := c.T.Underlying().(*types.Pointer); ok {
				ek := kindOf(pt.Elem())
				if ek < 0 {
					ek = 0
				}
				kfact := fmt.Sprintf("(= (kind (rvelem (rvof (%s x)))) %d)", c.Name, ek)
				if ek == 0 {
					kfact = "true"
				}
				sb.WriteString(fmt.Sprintf("(assert (forall ((x Int)) (! (and (= (rvisnil (rvof (%s x))) (= x 0)) (=> (not (= x 0)) (and %s (rvsettable (rvelem (rvof (%s x))))))) :pattern ((rvof (%s x))))))\n", c.Name, kfact, c.Name, c.Name))
			}
		case 21:
			sb.WriteString(fmt.Sprintf("(assert (forall ((x Int)) (! (= (rvisnil (rvof (%s x))) (= x 0)) :pattern ((rvof (%s x))))))\n", c.Name, c.Name))
		case 23:
			sb.WriteString(fmt.Sprintf("(assert (forall ((x Slice)) (! (=> (and (>= (s_len x) 0) (=> (= (s_arr x) 0) (= (s_len x) 0))) (and (= (rvisnil (rvof (%s x))) (= (s_arr x) 0)) (= (rvlen (rvof (%s x))) (s_len x)))) :pattern ((rvof (%s x))))))\n", c.Name, c.Name, c.Name))
		}
	}
	return sb.String()
}

// skipStandalone: closures that are only ever inlined into their parent are verified there, in context.
func (e *Engine) skipStandalone(fn *ssa.Function) bool {
	if fn.Parent() == nil || e.contractFor(fn) != nil || e.recClos[fn] {
		return false
	}
	return e.inlinedFns[fn] && !e.opaqueUse[fn]
}
