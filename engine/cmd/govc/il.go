package main

// Intermediate language: a CFG of guarded commands over mutable variables
// (cells, heap components, ghost state) whose expressions are SMT-LIB text.
// Mutable variables are referenced in expression text as @{name} (current
// version at that program point) or @old{name} (version at function entry).

import (
	"go/token"
	"fmt"
	"sync"
	"regexp"
	"sort"
	"strings"
)

type MVar struct {
	Name string
	Sort string
	Comp string // heap component name if this is a heap component
}

type StmtKind int

const (
	SAssume StmtKind = iota
	SAssert
	SAssign
	SHavoc
)

type Obligation struct {
	Name   string // Func/kind@anchor
	Kind   string // pre, post, inv-init, inv-pres, safe, nooverflow, modifies, reads, fresh, cover, ...
	Func   string
	Props  []string // property ids served
	Pos    string
	Detail string // clause text or instruction text
	// filled by VC generation
	Query  string
	Status string // unsat (discharged), sat, unknown, timeout
	Solver string
	Secs   float64
	Model  string
	Cover  bool // cover obligation: expected to be SAT (reachable)
	Block  int
	// Hyp: this obligation is a labelled loop-invariant clause; once checked it is assumed under this flag.
	Hyp string
	// Restrict: only the labelled invariant clauses named in Uses (plus the unlabelled/auto ones) are available
	// as hypotheses for this obligation (the clause said "uses a,b"): a smaller, more stable query.
	Restrict bool
	Uses     []string
}

type Stmt struct {
	K  StmtKind
	V  *MVar
	E  string
	Ob *Obligation
}

type ILEdge struct {
	To   *ILBlock
	Cond string // evaluated in the final state of the source block
}

type ILBlock struct {
	ID      int
	Label   string
	Stmts   []Stmt
	Succs   []*ILEdge
	Preds   []*ILBlock
	PosList []int // source positions (token.Pos as int) of instructions translated into this block
	// loop annotations (set by translator when known)
	LoopHint string
	Owner    any // translator frame that created the block
	// analysis
	idom  *ILBlock
	order int
	// passive
	inVer  map[*MVar]int
	outVer map[*MVar]int
	edgeEq map[*ILBlock][]string
	pStmts []pStmt
	dead   bool
}

type pStmt struct {
	K  StmtKind // SAssume or SAssert only
	E  string
	Ob *Obligation
}

type ILFunc struct {
	Name    string
	Blocks  []*ILBlock
	Entry   *ILBlock
	Vars    map[string]*MVar
	VarList []*MVar
	Decls   []string // SMT declarations for immutable constants
	declSet map[string]bool
	nextID  int
	Loops   []*ILLoop
	Notes   []string
	HypFlags map[string]bool
}

type ILLoop struct {
	Head     *ILBlock
	Body     map[*ILBlock]bool
	Back     []*ILBlock
	Key      string
	Pos      token.Pos // source position of the loop statement
	Spec     *LoopSpec
	CopyOf   *ILLoop // the first inlined copy of the same source loop (shares key and clauses)
	Inv      []InvClause // elaborated invariants (text with @{} tokens)
	Modified []*MVar
}

type InvClause struct {
	E     string
	Cl    *Clause
	Props []string
	Auto  string
}

func newILFunc(name string) *ILFunc {
	return &ILFunc{Name: name, Vars: map[string]*MVar{}, declSet: map[string]bool{}}
}

func (f *ILFunc) newBlock(label string) *ILBlock {
	b := &ILBlock{ID: f.nextID, Label: label}
	f.nextID++
	f.Blocks = append(f.Blocks, b)
	return b
}

func (f *ILFunc) mvar(name, sort string) *MVar {
	if v, ok := f.Vars[name]; ok {
		if v.Sort != sort {
			panic(fmt.Sprintf("mvar %s redeclared with sort %s (was %s)", name, sort, v.Sort))
		}
		return v
	}
	v := &MVar{Name: name, Sort: sort}
	f.Vars[name] = v
	f.VarList = append(f.VarList, v)
	return v
}

func (f *ILFunc) declConst(name, sort string) {
	if f.declSet[name] {
		return
	}
	f.declSet[name] = true
	f.Decls = append(f.Decls, fmt.Sprintf("(declare-const %s %s)", name, sort))
}

func (b *ILBlock) assume(e string)           { b.Stmts = append(b.Stmts, Stmt{K: SAssume, E: e}) }
func (b *ILBlock) assert(e string, ob *Obligation) {
	b.Stmts = append(b.Stmts, Stmt{K: SAssert, E: e, Ob: ob})
}
func (b *ILBlock) assign(v *MVar, e string) { b.Stmts = append(b.Stmts, Stmt{K: SAssign, V: v, E: e}) }
func (b *ILBlock) havoc(v *MVar)            { b.Stmts = append(b.Stmts, Stmt{K: SHavoc, V: v}) }
func (b *ILBlock) edge(to *ILBlock, cond string) {
	b.Succs = append(b.Succs, &ILEdge{To: to, Cond: cond})
}

func cur(v *MVar) string { return "@{" + v.Name + "}" }
func old(v *MVar) string { return "@old{" + v.Name + "}" }

var tokRe = regexp.MustCompile(`@(old)?\{([^}]+)\}`)

// ---- CFG analysis ----

func (f *ILFunc) computePreds() {
	for _, b := range f.Blocks {
		b.Preds = nil
	}
	for _, b := range f.Blocks {
		for _, e := range b.Succs {
			e.To.Preds = append(e.To.Preds, b)
		}
	}
}

// reachable prunes unreachable blocks and returns reverse post-order.
func (f *ILFunc) rpo() []*ILBlock {
	seen := map[*ILBlock]bool{}
	var post []*ILBlock
	var dfs func(b *ILBlock)
	dfs = func(b *ILBlock) {
		seen[b] = true
		for _, e := range b.Succs {
			if !seen[e.To] {
				dfs(e.To)
			}
		}
		post = append(post, b)
	}
	dfs(f.Entry)
	for i, j := 0, len(post)-1; i < j; i, j = i+1, j-1 {
		post[i], post[j] = post[j], post[i]
	}
	for i, b := range post {
		b.order = i
	}
	var keep []*ILBlock
	for _, b := range f.Blocks {
		if seen[b] {
			keep = append(keep, b)
		}
	}
	f.Blocks = keep
	return post
}

func (f *ILFunc) dominators(order []*ILBlock) {
	for _, b := range order {
		b.idom = nil
	}
	f.Entry.idom = f.Entry
	changed := true
	for changed {
		changed = false
		for _, b := range order {
			if b == f.Entry {
				continue
			}
			var nd *ILBlock
			for _, p := range b.Preds {
				if p.idom == nil {
					continue
				}
				if nd == nil {
					nd = p
				} else {
					nd = intersect(p, nd)
				}
			}
			if nd != b.idom {
				b.idom = nd
				changed = true
			}
		}
	}
}

func intersect(a, b *ILBlock) *ILBlock {
	for a != b {
		for a.order > b.order {
			a = a.idom
		}
		for b.order > a.order {
			b = b.idom
		}
	}
	return a
}

func dominates(a, b *ILBlock) bool {
	for {
		if a == b {
			return true
		}
		if b.idom == b || b.idom == nil {
			return false
		}
		b = b.idom
	}
}

// findLoops identifies natural loops; returns error on irreducible flow.
func (f *ILFunc) findLoops() error {
	f.computePreds()
	order := f.rpo()
	f.computePreds()
	f.dominators(order)
	heads := map[*ILBlock]*ILLoop{}
	for _, b := range order {
		for _, e := range b.Succs {
			if e.To.order <= b.order { // retreating edge
				if !dominates(e.To, b) {
					return fmt.Errorf("irreducible control flow at block %d -> %d", b.ID, e.To.ID)
				}
				l := heads[e.To]
				if l == nil {
					l = &ILLoop{Head: e.To, Body: map[*ILBlock]bool{e.To: true}}
					heads[e.To] = l
					f.Loops = append(f.Loops, l)
				}
				l.Back = append(l.Back, b)
				// natural loop body
				stack := []*ILBlock{b}
				for len(stack) > 0 {
					n := stack[len(stack)-1]
					stack = stack[:len(stack)-1]
					if l.Body[n] {
						continue
					}
					l.Body[n] = true
					stack = append(stack, n.Preds...)
				}
			}
		}
	}
	sort.Slice(f.Loops, func(i, j int) bool { return f.Loops[i].Head.order < f.Loops[j].Head.order })
	for _, l := range f.Loops {
		mod := map[*MVar]bool{}
		for b := range l.Body {
			for _, s := range b.Stmts {
				if s.K == SAssign || s.K == SHavoc {
					if s.V == nil {
						for _, hv := range f.VarList {
							if hv.Comp != "" {
								mod[hv] = true
							}
						}
						continue
					}
					mod[s.V] = true
				}
			}
		}
		for _, v := range f.VarList {
			if mod[v] {
				l.Modified = append(l.Modified, v)
			}
		}
	}
	return nil
}

// cutLoops turns the CFG into a DAG using the loops' invariants.
func (f *ILFunc) cutLoops(fnName string, defaultProps []string) {
	for li, l := range f.Loops {
		h := l.Head
		isBack := map[*ILBlock]bool{}
		for _, u := range l.Back {
			isBack[u] = true
		}
		key := l.Key
		if key == "" {
			key = fmt.Sprintf("loop#%d", li)
		}
		// snapshot of pre-loop values for auto invariants
		var pre []Stmt
		snap := map[*MVar]string{}
		for _, v := range l.Modified {
			c := fmt.Sprintf("pre$%d$%s", h.ID, sanitize(v.Name))
			f.declConst(c, v.Sort)
			snap[v] = c
		}
		for i := range l.Inv {
			e := l.Inv[i].E
			for _, v := range l.Modified {
				e = strings.ReplaceAll(e, "@pre{"+v.Name+"}", snap[v])
			}
			if strings.Contains(e, "@pre{") {
				// refers to a variable the loop does not modify: its pre-loop value is its current value
				e = strings.ReplaceAll(e, "@pre{", "@{")
			}
			l.Inv[i].E = e
		}
		// exit clauses of this loop may also refer to loop-entry values
		for _, xb := range f.Blocks {
			if xb.Label != fmt.Sprintf("loopexit(%d)", h.ID) {
				continue
			}
			for i := range xb.Stmts {
				e := xb.Stmts[i].E
				if !strings.Contains(e, "@pre{") {
					continue
				}
				for _, v := range l.Modified {
					e = strings.ReplaceAll(e, "@pre{"+v.Name+"}", snap[v])
				}
				e = strings.ReplaceAll(e, "@pre{", "@{")
				xb.Stmts[i].E = e
			}
		}
		mkAsserts := func(kind string, blk *ILBlock) {
			for i, inv := range l.Inv {
				name := fmt.Sprintf("%s/%s@%s#%d", fnName, kind, key, i)
				if inv.Cl != nil && inv.Cl.Name != "" {
					name = fmt.Sprintf("%s/%s@%s[%s]", fnName, kind, key, inv.Cl.Name)
				}
				if inv.Auto != "" {
					name = fmt.Sprintf("%s/%s@%s[auto:%s]", fnName, kind, key, inv.Auto)
				}
				props := inv.Props
				if len(props) == 0 {
					props = defaultProps
				}
				det := ""
				if inv.Cl != nil {
					det = inv.Cl.Src
				}
				ob := &Obligation{Name: name, Kind: kind, Func: fnName, Props: props, Detail: det, Hyp: f.hypFlag(inv)}
				if inv.Cl != nil && inv.Cl.HasUses {
					ob.Restrict = true
					ob.Uses = append([]string{inv.Cl.Name}, inv.Cl.Uses...)
				}
				blk.assert(inv.E, ob)
			}
		}
		// redirect edges into h
		for _, p := range f.Blocks {
			for _, e := range p.Succs {
				if e.To != h {
					continue
				}
				if isBack[p] && l.Body[p] {
					x := f.newBlock(fmt.Sprintf("backedge(%d)", h.ID))
					mkAsserts("inv-pres", x)
					x.assume("false")
					e.To = x
				} else {
					eb := f.newBlock(fmt.Sprintf("loopentry(%d)", h.ID))
					for _, v := range l.Modified {
						eb.assume(fmt.Sprintf("(= %s %s)", snap[v], cur(v)))
					}
					mkAsserts("inv-init", eb)
					eb.edge(h, "true")
					e.To = eb
				}
			}
		}
		for _, v := range l.Modified {
			pre = append(pre, Stmt{K: SHavoc, V: v})
		}
		for _, inv := range l.Inv {
			if fl := f.hypFlag(inv); fl != "" {
				pre = append(pre, Stmt{K: SAssume, E: "(=> " + fl + " " + inv.E + ")"})
			} else {
				pre = append(pre, Stmt{K: SAssume, E: inv.E})
			}
		}
		h.Stmts = append(pre, h.Stmts...)
	}
	f.computePreds()
}

// hypFlag: the boolean under which a labelled invariant clause is assumed (all flags are asserted unless an
// obligation restricts its hypotheses).
func (f *ILFunc) hypFlag(inv InvClause) string {
	if inv.Cl == nil || inv.Cl.Name == "" {
		return ""
	}
	fl := "hyp$" + sanitize(inv.Cl.Name)
	if f.HypFlags == nil {
		f.HypFlags = map[string]bool{}
	}
	if !f.HypFlags[fl] {
		f.HypFlags[fl] = true
		f.declConst(fl, "Bool")
	}
	return fl
}

func sanitize(s string) string {
	var sb strings.Builder
	for _, r := range s {
		if (r >= 'a' && r <= 'z') || (r >= 'A' && r <= 'Z') || (r >= '0' && r <= '9') || r == '_' || r == '.' || r == '$' {
			sb.WriteRune(r)
		} else {
			sb.WriteByte('_')
		}
	}
	return sb.String()
}

// ---- passification and VC generation ----

func verName(v *MVar, k int) string { return fmt.Sprintf("%s@%d", sanitize(v.Name), k) }

func (f *ILFunc) subst(e string, ver map[*MVar]int) string {
	if !strings.Contains(e, "@") {
		return e
	}
	return tokRe.ReplaceAllStringFunc(e, func(m string) string {
		sm := tokRe.FindStringSubmatch(m)
		v := f.Vars[sm[2]]
		if v == nil {
			panic("unknown mutable variable in expression: " + sm[2] + " in " + e)
		}
		if sm[1] == "old" {
			return "|" + verName(v, 0) + "|"
		}
		return "|" + verName(v, ver[v]) + "|"
	})
}

// passify must be called after cutLoops (graph is a DAG).
func (f *ILFunc) passify() (vcDecls []string, order []*ILBlock) {
	f.computePreds()
	order = f.rpo()
	f.computePreds()
	nextVer := map[*MVar]int{}
	declared := map[string]bool{}
	decl := func(v *MVar, k int) {
		n := verName(v, k)
		if !declared[n] {
			declared[n] = true
			vcDecls = append(vcDecls, fmt.Sprintf("(declare-const |%s| %s)", n, v.Sort))
		}
	}
	for _, v := range f.VarList {
		decl(v, 0)
	}
	fresh := func(v *MVar) int {
		nextVer[v]++
		decl(v, nextVer[v])
		return nextVer[v]
	}
	for _, b := range order {
		b.inVer = map[*MVar]int{}
		b.edgeEq = map[*ILBlock][]string{}
		if len(b.Preds) > 0 {
			for _, v := range f.VarList {
				first := true
				same := true
				ver := 0
				for _, p := range b.Preds {
					if p.outVer == nil {
						continue // pred not in order (unreachable)
					}
					pv := p.outVer[v]
					if first {
						ver = pv
						first = false
					} else if pv != ver {
						same = false
					}
				}
				if same {
					if ver != 0 {
						b.inVer[v] = ver
					}
				} else {
					nv := fresh(v)
					b.inVer[v] = nv
					for _, p := range b.Preds {
						if p.outVer == nil {
							continue
						}
						b.edgeEq[p] = append(b.edgeEq[p], fmt.Sprintf("(= |%s| |%s|)", verName(v, nv), verName(v, p.outVer[v])))
					}
				}
			}
		}
		ver := map[*MVar]int{}
		for k, v := range b.inVer {
			ver[k] = v
		}
		b.pStmts = nil
		for _, s := range b.Stmts {
			switch s.K {
			case SAssume:
				b.pStmts = append(b.pStmts, pStmt{K: SAssume, E: f.subst(s.E, ver)})
			case SAssert:
				b.pStmts = append(b.pStmts, pStmt{K: SAssert, E: f.subst(s.E, ver), Ob: s.Ob})
			case SAssign:
				rhs := f.subst(s.E, ver)
				nv := fresh(s.V)
				ver[s.V] = nv
				b.pStmts = append(b.pStmts, pStmt{K: SAssume, E: fmt.Sprintf("(= |%s| %s)", verName(s.V, nv), rhs)})
			case SHavoc:
				if s.V == nil {
					for _, hv := range f.VarList {
						if hv.Comp != "" {
							ver[hv] = fresh(hv)
						}
					}
					continue
				}
				ver[s.V] = fresh(s.V)
			}
		}
		b.outVer = ver
		// edge conditions are evaluated in out state
		for _, e := range b.Succs {
			e.Cond = f.subst(e.Cond, ver)
		}
	}
	return vcDecls, order
}

// VCSet is the result of VC generation for one function.
type VCSet struct {
	Common string      // sorts, axioms, declarations
	Blocks []*BlockDef // topological order
	Obs    []*Obligation
	anc    map[int]map[int]bool
	byID   map[int]*BlockDef
	HypFlags map[string]bool
	DomUnits bool // assert the facts of dominating blocks unconditionally (helps some goals, hurts others)
	ancOnce sync.Once
}

type BlockDef struct {
	ID    int
	Text  string
	Preds []int
	Idom  int // immediate dominator in the loop-free graph (-1 for the entry)
}

// dominators of block id, including id itself.
func (vs *VCSet) domChain(id int) []int {
	byID := vs.byID
	var out []int
	for cur := id; cur >= 0; {
		out = append(out, cur)
		b := byID[cur]
		if b == nil || b.Idom == cur {
			break
		}
		cur = b.Idom
	}
	return out
}

// ancestors returns the set of blocks that can reach block id (including id).
func (vs *VCSet) ancestors(id int) map[int]bool {
	vs.ancOnce.Do(func() {
		vs.anc = map[int]map[int]bool{}
		for _, b := range vs.Blocks { // topological order: preds first
			s := map[int]bool{b.ID: true}
			for _, p := range b.Preds {
				for k := range vs.anc[p] {
					s[k] = true
				}
			}
			vs.anc[b.ID] = s
		}
	})
	return vs.anc[id]
}

// queryText renders the SMT problem for a group of obligations: only the blocks that can reach one of them.
func (vs *VCSet) queryText(obs []*Obligation) string {
	need := map[int]bool{}
	for _, ob := range obs {
		for k := range vs.ancestors(ob.Block) {
			need[k] = true
		}
	}
	var sb strings.Builder
	sb.WriteString(vs.Common)
	for _, b := range vs.Blocks {
		if need[b.ID] || obs == nil {
			sb.WriteString(b.Text)
		}
	}
	if obs == nil {
		return sb.String()
	}
	var flags []string
	for fl := range vs.HypFlags {
		flags = append(flags, fl)
	}
	sort.Strings(flags)
	for _, fl := range flags {
		if len(obs) == 1 && obs[0].Restrict {
			ok := false
			for _, u := range obs[0].Uses {
				if "hyp$"+sanitize(u) == fl {
					ok = true
				}
			}
			if !ok {
				// a hypothesis the clause does not name is switched off outright (a proof from fewer hypotheses
				// is still a proof); left undetermined, the solvers spend their time deciding the flag
				sb.WriteString("(assert (not " + fl + "))\n")
				continue
			}
		}
		sb.WriteString("(assert " + fl + ")\n")
	}
	// every path to the goal block runs through its dominators: their facts hold unconditionally
	common := map[int]int{}
	for _, ob := range obs {
		for _, d := range vs.domChain(ob.Block) {
			if d != ob.Block {
				common[d]++
			}
		}
	}
	// for an obligation with a restricted hypothesis set the dominating blocks are asserted outright: its proof
	// is meant to use the facts of a dominating loop head, and finding out propositionally that every path runs
	// through that head is what the solvers fail at on large functions
	if vs.DomUnits || (len(obs) == 1 && obs[0].Restrict) {
		for _, b := range vs.Blocks {
			if common[b.ID] == len(obs) {
				sb.WriteString(fmt.Sprintf("(assert X$%d)\n", b.ID))
			}
		}
	}
	if len(obs) == 1 {
		sb.WriteString("(assert " + obs[0].Query + ")\n")
	} else {
		sb.WriteString("(assert (or")
		for _, ob := range obs {
			sb.WriteString("\n " + ob.Query)
		}
		sb.WriteString("))\n")
	}
	return sb.String()
}

func (f *ILFunc) genVC(background string, extra func(decl string) string) *VCSet {
	decls, order := f.passify()
	var sb strings.Builder
	sb.WriteString(background)
	sb.WriteString("\n; ---- function " + f.Name + " ----\n")
	for _, d := range f.Decls {
		sb.WriteString(d)
		sb.WriteByte('\n')
		if extra != nil {
			sb.WriteString(extra(d))
		}
	}
	for _, d := range decls {
		sb.WriteString(d)
		sb.WriteByte('\n')
		if extra != nil {
			sb.WriteString(extra(d))
		}
	}
	vs := &VCSet{HypFlags: f.HypFlags}
	rname := func(b *ILBlock) string { return fmt.Sprintf("R$%d", b.ID) }
	xname := func(b *ILBlock) string { return fmt.Sprintf("X$%d", b.ID) }
	for _, b := range order {
		sb.WriteString(fmt.Sprintf("(declare-const %s Bool)\n(declare-const %s Bool)\n", rname(b), xname(b)))
	}
	vs.Common = sb.String()
	f.dominators(order)
	vs.byID = map[int]*BlockDef{}
	// One-directional encoding (sufficient for refutation, and it keeps quantified facts at top level):
	//   R_b  => OR over predecessors p (X_p and edge condition and version equalities)
	//   P_b,j => R_b and every statement before the j-th obligation of b
	//   X_b  => R_b and every statement of b
	for _, b := range order {
		var bs strings.Builder
		bd := &BlockDef{ID: b.ID, Idom: -1}
		if b.idom != nil {
			bd.Idom = b.idom.ID
		}
		vs.byID[b.ID] = bd
		if b != f.Entry {
			var dis []string
			for _, p := range b.Preds {
				if p.outVer == nil {
					continue
				}
				bd.Preds = append(bd.Preds, p.ID)
				for _, e := range p.Succs {
					if e.To != b {
						continue
					}
					conj := []string{xname(p)}
					if e.Cond != "true" && e.Cond != "" {
						conj = append(conj, e.Cond)
					}
					conj = append(conj, b.edgeEq[p]...)
					dis = append(dis, "(and "+strings.Join(conj, " ")+")")
				}
			}
			if len(dis) == 0 {
				bs.WriteString(fmt.Sprintf("(assert (not %s))\n", rname(b)))
			} else {
				bs.WriteString(fmt.Sprintf("(assert (=> %s (or %s false)))\n", rname(b), strings.Join(dis, "\n   ")))
			}
		}
		curP := rname(b)
		var pending []string
		np := 0
		for _, s := range b.pStmts {
			if s.K == SAssert {
				if len(pending) > 0 {
					np++
					pn := fmt.Sprintf("P$%d$%d", b.ID, np)
					bs.WriteString(fmt.Sprintf("(declare-const %s Bool)\n(assert (=> %s %s))\n", pn, pn, curP))
					for _, e := range pending {
						bs.WriteString(fmt.Sprintf("(assert (=> %s %s))\n", pn, e))
					}
					pending = nil
					curP = pn
				}
				if s.Ob.Cover {
					s.Ob.Query = curP
				} else {
					s.Ob.Query = fmt.Sprintf("(and %s (not %s))", curP, s.E)
				}
				s.Ob.Block = b.ID
				vs.Obs = append(vs.Obs, s.Ob)
				if !s.Ob.Cover {
					// assert then assume (a labelled invariant clause: under its hypothesis flag)
					if s.Ob.Hyp != "" {
						pending = append(pending, "(=> "+s.Ob.Hyp+" "+s.E+")")
					} else {
						pending = append(pending, s.E)
					}
				}
			} else {
				pending = append(pending, s.E)
			}
		}
		bs.WriteString(fmt.Sprintf("(assert (=> %s %s))\n", xname(b), curP))
		for _, e := range pending {
			bs.WriteString(fmt.Sprintf("(assert (=> %s %s))\n", xname(b), e))
		}
		bd.Text = bs.String()
		vs.Blocks = append(vs.Blocks, bd)
	}
	return vs
}

func (f *ILFunc) dump() string {
	var sb strings.Builder
	for _, b := range f.Blocks {
		sb.WriteString(fmt.Sprintf("B%d [%s]\n", b.ID, b.Label))
		for _, s := range b.Stmts {
			switch s.K {
			case SAssume:
				sb.WriteString("   assume " + s.E + "\n")
			case SAssert:
				sb.WriteString("   assert " + s.E + "   ; " + s.Ob.Name + "\n")
			case SAssign:
				sb.WriteString("   " + s.V.Name + " := " + s.E + "\n")
			case SHavoc:
				if s.V == nil {
					sb.WriteString("   havoc *\n")
				} else {
					sb.WriteString("   havoc " + s.V.Name + "\n")
				}
			}
		}
		for _, e := range b.Succs {
			sb.WriteString(fmt.Sprintf("   -> B%d if %s\n", e.To.ID, e.Cond))
		}
	}
	return sb.String()
}
