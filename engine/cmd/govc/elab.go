package main

// Elaboration of specification expressions to SMT-LIB text.

import (
	"fmt"
	"go/types"
	"strconv"
	"strings"
)

type TExpr struct {
	E    string
	Sort string
	GoT  types.Type // optional
	Cell *CellRef   // the identifier denotes the content of a heap cell
}

type CellRef struct{ Comp, Sort, Ref string }

type Scope struct {
	vars    map[string]TExpr
	parent  *Scope
	eng     *Engine
	il      *ILFunc // heap variables are registered here; nil => no heap access allowed
	useOld  bool    // heap reads refer to the entry state
	oldHook func(n *NOld) (TExpr, bool)
	heapFn  func(comp, sort string) string // overrides heap variable reference (e.g. snapshot)
}

func (s *Scope) child() *Scope {
	return &Scope{vars: map[string]TExpr{}, parent: s, eng: s.eng, il: s.il, useOld: s.useOld, oldHook: s.oldHook, heapFn: s.heapFn}
}

func (s *Scope) lookup(name string) (TExpr, bool) {
	for c := s; c != nil; c = c.parent {
		if v, ok := c.vars[name]; ok {
			return v, true
		}
	}
	return TExpr{}, false
}

func (s *Scope) heap(comp, sort string) string {
	if s.heapFn != nil {
		return s.heapFn(comp, sort)
	}
	if s.il == nil {
		panic(elabErr("heap access (" + comp + ") in a context without heap"))
	}
	v := s.il.mvar(comp, sort)
	v.Comp = comp
	if s.useOld {
		return old(v)
	}
	return cur(v)
}

type elabErr string

func userSort(n string) string {
	switch n {
	case "int", "Int", "Ref", "ref", "Kind":
		return "Int"
	case "bool", "Bool":
		return "Bool"
	case "string", "String":
		return "String"
	case "real", "Real", "float64":
		return "Real"
	}
	if strings.HasPrefix(n, "Array<") && strings.HasSuffix(n, ">") {
		parts := splitTop(n[6:len(n)-1], ',')
		if len(parts) == 2 {
			return "(Array " + userSort(strings.TrimSpace(parts[0])) + " " + userSort(strings.TrimSpace(parts[1])) + ")"
		}
	}
	return n
}

func smtString(s string) string {
	var sb strings.Builder
	sb.WriteByte('"')
	for _, r := range s {
		switch {
		case r == '"':
			sb.WriteString(`""`)
		case r < 32 || r > 126 || r == '\\':
			sb.WriteString(fmt.Sprintf(`\u{%x}`, r))
		default:
			sb.WriteRune(r)
		}
	}
	sb.WriteByte('"')
	return sb.String()
}

func smtInt(v string) string {
	if strings.HasPrefix(v, "-") {
		return "(- " + v[1:] + ")"
	}
	return v
}

func (s *Scope) elab(n Node) (te TExpr, err error) {
	defer func() {
		if r := recover(); r != nil {
			if ee, ok := r.(elabErr); ok {
				err = fmt.Errorf("%s", string(ee))
				return
			}
			panic(r)
		}
	}()
	return s.el(n), nil
}

func (s *Scope) fail(f string, a ...any) { panic(elabErr(fmt.Sprintf(f, a...))) }

func (s *Scope) el(n Node) TExpr {
	switch n := n.(type) {
	case *NInt:
		return TExpr{E: n.V, Sort: "Int"}
	case *NReal:
		return TExpr{E: n.V, Sort: "Real"}
	case *NStr:
		return TExpr{E: smtString(n.V), Sort: "String"}
	case *NBool:
		return TExpr{E: strconv.FormatBool(n.V), Sort: "Bool"}
	case *NNil:
		return TExpr{E: "0", Sort: "Nil"}
	case *NIdent:
		if v, ok := s.lookup(n.Name); ok {
			if v.Cell != nil {
				return TExpr{E: fmt.Sprintf("(select %s %s)", s.heap(v.Cell.Comp, v.Cell.Sort), v.Cell.Ref), Sort: v.Sort, GoT: v.GoT}
			}
			return v
		}
		if srt, ok := s.eng.ghost[n.Name]; ok {
			return TExpr{E: s.heap(n.Name, srt), Sort: srt}
		}
		if f := s.eng.specFuncs[n.Name]; f != nil && len(f.Params) == 0 {
			return TExpr{E: f.Name, Sort: userSort(f.Ret)}
		}
		if c, ok := s.eng.smtConsts[n.Name]; ok {
			return TExpr{E: n.Name, Sort: c}
		}
		s.fail("unknown identifier %q", n.Name)
	case *NOld:
		if s.oldHook != nil {
			if te, ok := s.oldHook(n); ok {
				return te
			}
		}
		c := s.child()
		c.useOld = true
		c.heapFn = nil
		return c.el(n.X)
	case *NIte:
		c := s.el(n.C)
		a := s.el(n.A)
		b := s.el(n.B)
		a, b = s.unify(a, b)
		return TExpr{E: fmt.Sprintf("(ite %s %s %s)", c.E, a.E, b.E), Sort: a.Sort, GoT: a.GoT}
	case *NUnary:
		x := s.el(n.X)
		switch n.Op {
		case "!":
			return TExpr{E: "(not " + x.E + ")", Sort: "Bool"}
		case "-":
			return TExpr{E: "(- " + x.E + ")", Sort: x.Sort}
		case "*":
			if x.GoT != nil {
				if p, ok := x.GoT.Underlying().(*types.Pointer); ok {
					comp, srt := s.eng.sorts.cellComp(p.Elem())
					return TExpr{E: fmt.Sprintf("(select %s %s)", s.heap(comp, srt), x.E), Sort: s.eng.sorts.sortOf(p.Elem()).Sort, GoT: p.Elem()}
				}
			}
			s.fail("cannot dereference value of sort %s", x.Sort)
		}
	case *NBinary:
		return s.elBinary(n)
	case *NQuant:
		c := s.child()
		var bs []string
		for _, v := range n.Vars {
			srt := userSort(v.Sort)
			c.vars[v.Name] = TExpr{E: v.Name + "!q", Sort: srt}
			bs = append(bs, fmt.Sprintf("(%s!q %s)", v.Name, srt))
		}
		body := c.el(n.Body)
		q := "exists"
		if n.Forall {
			q = "forall"
		}
		return TExpr{E: fmt.Sprintf("(%s (%s) %s)", q, strings.Join(bs, " "), body.E), Sort: "Bool"}
	case *NField:
		return s.elField(n)
	case *NIndex:
		x := s.el(n.X)
		i := s.el(n.I)
		if x.GoT != nil {
			switch u := x.GoT.Underlying().(type) {
			case *types.Slice:
				comp, srt := s.eng.sorts.elemComp(u.Elem())
				return TExpr{E: fmt.Sprintf("(select (select %s (s_arr %s)) %s)", s.heap(comp, srt), x.E, i.E), Sort: s.eng.sorts.sortOf(u.Elem()).Sort, GoT: u.Elem()}
			case *types.Map:
				mi := s.eng.sorts.mapInfo(x.GoT)
				comp, srt := mi.valComp()
				return TExpr{E: fmt.Sprintf("(select (select %s %s) %s)", s.heap(comp, srt), x.E, i.E), Sort: mi.VSort, GoT: u.Elem()}
			case *types.Basic:
				if u.Info()&types.IsString != 0 {
					return TExpr{E: fmt.Sprintf("(str.at %s %s)", x.E, i.E), Sort: "String"}
				}
			}
		}
		if strings.HasPrefix(x.Sort, "(Array ") {
			parts := splitSortArgs(x.Sort)
			return TExpr{E: fmt.Sprintf("(select %s %s)", x.E, i.E), Sort: parts[1]}
		}
		if x.Sort == "String" {
			return TExpr{E: fmt.Sprintf("(str.at %s %s)", x.E, i.E), Sort: "String"}
		}
		s.fail("cannot index value of sort %s", x.Sort)
	case *NCall:
		return s.elCall(n)
	}
	s.fail("cannot elaborate %T", n)
	return TExpr{}
}

// splitSortArgs splits "(Array K V)" into [K, V].
func splitSortArgs(srt string) []string {
	inner := strings.TrimSuffix(strings.TrimPrefix(srt, "(Array "), ")")
	depth := 0
	for i := 0; i < len(inner); i++ {
		switch inner[i] {
		case '(':
			depth++
		case ')':
			depth--
		case ' ':
			if depth == 0 {
				return []string{inner[:i], inner[i+1:]}
			}
		}
	}
	return []string{inner, ""}
}

func (s *Scope) unify(a, b TExpr) (TExpr, TExpr) {
	if a.Sort == b.Sort {
		return a, b
	}
	if a.Sort == "Nil" {
		a = s.nilOf(b)
		return a, b
	}
	if b.Sort == "Nil" {
		b = s.nilOf(a)
		return a, b
	}
	if a.Sort == "Int" && b.Sort == "Real" {
		a = TExpr{E: "(to_real " + a.E + ")", Sort: "Real"}
	} else if a.Sort == "Real" && b.Sort == "Int" {
		b = TExpr{E: "(to_real " + b.E + ")", Sort: "Real"}
	}
	return a, b
}

func (s *Scope) nilOf(t TExpr) TExpr {
	switch t.Sort {
	case "Int":
		return TExpr{E: "0", Sort: "Int", GoT: t.GoT}
	case "Any":
		return TExpr{E: "any_nil", Sort: "Any"}
	case "Slice":
		return TExpr{E: "(mk_slice 0 0)", Sort: "Slice"}
	case "RT":
		return TExpr{E: "rt_nil", Sort: "RT"}
	case "Nil":
		return TExpr{E: "0", Sort: "Int"}
	}
	s.fail("nil is not a value of sort %s", t.Sort)
	return TExpr{}
}

func (s *Scope) elBinary(n *NBinary) TExpr {
	x := s.el(n.X)
	y := s.el(n.Y)
	switch n.Op {
	case "&&":
		return TExpr{E: "(and " + x.E + " " + y.E + ")", Sort: "Bool"}
	case "||":
		return TExpr{E: "(or " + x.E + " " + y.E + ")", Sort: "Bool"}
	case "==>":
		return TExpr{E: "(=> " + x.E + " " + y.E + ")", Sort: "Bool"}
	case "<==>":
		return TExpr{E: "(= " + x.E + " " + y.E + ")", Sort: "Bool"}
	case "==", "!=":
		var e string
		// nil-ness of a slice is a property of its backing reference
		if x.Sort == "Slice" && y.Sort == "Nil" {
			e = "(= (s_arr " + x.E + ") 0)"
		} else if y.Sort == "Slice" && x.Sort == "Nil" {
			e = "(= (s_arr " + y.E + ") 0)"
		} else {
			x, y = s.unify(x, y)
			if x.Sort != y.Sort {
				s.fail("comparing %s with %s", x.Sort, y.Sort)
			}
			e = "(= " + x.E + " " + y.E + ")"
		}
		if n.Op == "!=" {
			e = "(not " + e + ")"
		}
		return TExpr{E: e, Sort: "Bool"}
	case "<", "<=", ">", ">=":
		x, y = s.unify(x, y)
		if x.Sort == "String" {
			switch n.Op {
			case "<":
				return TExpr{E: "(str.< " + x.E + " " + y.E + ")", Sort: "Bool"}
			case "<=":
				return TExpr{E: "(str.<= " + x.E + " " + y.E + ")", Sort: "Bool"}
			case ">":
				return TExpr{E: "(str.< " + y.E + " " + x.E + ")", Sort: "Bool"}
			case ">=":
				return TExpr{E: "(str.<= " + y.E + " " + x.E + ")", Sort: "Bool"}
			}
		}
		return TExpr{E: "(" + n.Op + " " + x.E + " " + y.E + ")", Sort: "Bool"}
	case "+", "-", "*":
		x, y = s.unify(x, y)
		if x.Sort == "String" && n.Op == "+" {
			return TExpr{E: "(str.++ " + x.E + " " + y.E + ")", Sort: "String"}
		}
		return TExpr{E: "(" + n.Op + " " + x.E + " " + y.E + ")", Sort: x.Sort}
	case "++":
		return TExpr{E: "(str.++ " + x.E + " " + y.E + ")", Sort: "String"}
	case "/":
		x, y = s.unify(x, y)
		if x.Sort == "Int" {
			return TExpr{E: "(div " + x.E + " " + y.E + ")", Sort: "Int"}
		}
		return TExpr{E: "(/ " + x.E + " " + y.E + ")", Sort: "Real"}
	case "%":
		return TExpr{E: "(mod " + x.E + " " + y.E + ")", Sort: "Int"}
	}
	s.fail("unknown operator %s", n.Op)
	return TExpr{}
}

func (s *Scope) elField(n *NField) TExpr {
	x := s.el(n.X)
	if x.GoT != nil {
		t := x.GoT
		if p, ok := t.Underlying().(*types.Pointer); ok {
			if st, ok := p.Elem().Underlying().(*types.Struct); ok {
				idx, ft := findField(st, n.Name)
				if idx < 0 {
					s.fail("no field %s in %s", n.Name, t)
				}
				comp, srt := s.eng.sorts.fieldComp(p.Elem(), idx)
				return TExpr{E: fmt.Sprintf("(select %s %s)", s.heap(comp, srt), x.E), Sort: s.eng.sorts.sortOf(ft).Sort, GoT: ft}
			}
		}
		if st, ok := t.Underlying().(*types.Struct); ok && !strings.HasPrefix(x.Sort, "R") {
			idx, ft := findField(st, n.Name)
			if idx < 0 {
				s.fail("no field %s in %s", n.Name, t)
			}
			si := s.eng.sorts.structInfo(t)
			return TExpr{E: fmt.Sprintf("(%s_%s %s)", si.Name, n.Name, x.E), Sort: s.eng.sorts.sortOf(ft).Sort, GoT: ft}
		}
	}
	switch x.Sort {
	case "Slice":
		switch n.Name {
		case "arr":
			return TExpr{E: "(s_arr " + x.E + ")", Sort: "Int"}
		case "len":
			return TExpr{E: "(s_len " + x.E + ")", Sort: "Int"}
		}
	}
	// accessor of a user datatype
	if srt, ok := s.eng.smtFuncs[n.Name]; ok {
		return TExpr{E: "(" + n.Name + " " + x.E + ")", Sort: srt}
	}
	s.fail("cannot select .%s from value of sort %s", n.Name, x.Sort)
	return TExpr{}
}

func findField(st *types.Struct, name string) (int, types.Type) {
	for i := 0; i < st.NumFields(); i++ {
		if st.Field(i).Name() == name {
			return i, st.Field(i).Type()
		}
	}
	// promoted through embedded pointer/struct: not supported in specs
	return -1, nil
}

func (s *Scope) elCall(n *NCall) TExpr {
	args := make([]TExpr, len(n.Args))
	for i, a := range n.Args {
		args[i] = s.el(a)
	}
	switch n.Fn {
	case "len":
		x := args[0]
		switch {
		case x.Sort == "Slice":
			return TExpr{E: "(s_len " + x.E + ")", Sort: "Int"}
		case x.Sort == "String":
			return TExpr{E: "(str.len " + x.E + ")", Sort: "Int"}
		case x.GoT != nil:
			if _, ok := x.GoT.Underlying().(*types.Map); ok {
				mi := s.eng.sorts.mapInfo(x.GoT)
				comp, srt := mi.lenComp()
				return TExpr{E: fmt.Sprintf("(select %s %s)", s.heap(comp, srt), x.E), Sort: "Int"}
			}
		}
		s.fail("len of sort %s", x.Sort)
	case "has":
		x := args[0]
		if x.GoT != nil {
			if _, ok := x.GoT.Underlying().(*types.Map); ok {
				mi := s.eng.sorts.mapInfo(x.GoT)
				comp, srt := mi.domComp()
				return TExpr{E: fmt.Sprintf("(select (select %s %s) %s)", s.heap(comp, srt), x.E, args[1].E), Sort: "Bool"}
			}
		}
		s.fail("has() needs a Go map")
	case "fresh":
		// allocated since function entry (or since the call, in a callee postcondition at a call site)
		return TExpr{E: fmt.Sprintf("(> %s %s)", refOf(args[0]), s.allocRef(true)), Sort: "Bool"}
	case "allocated":
		return TExpr{E: fmt.Sprintf("(<= %s %s)", refOf(args[0]), s.allocRef(false)), Sort: "Bool"}
	case "isnil":
		x := args[0]
		if x.Sort == "Slice" {
			return TExpr{E: "(= (s_arr " + x.E + ") 0)", Sort: "Bool"}
		}
		nl := s.nilOf(x)
		return TExpr{E: "(= " + x.E + " " + nl.E + ")", Sort: "Bool"}
	case "toreal":
		return TExpr{E: "(to_real " + args[0].E + ")", Sort: "Real"}
	case "toint":
		return TExpr{E: "(to_int " + args[0].E + ")", Sort: "Int"}
	case "isint":
		return TExpr{E: "(is_int " + args[0].E + ")", Sort: "Bool"}
	case "select":
		parts := splitSortArgs(args[0].Sort)
		return TExpr{E: "(select " + args[0].E + " " + args[1].E + ")", Sort: parts[1]}
	case "store":
		return TExpr{E: "(store " + args[0].E + " " + args[1].E + " " + args[2].E + ")", Sort: args[0].Sort}
	case "prefixof":
		return TExpr{E: "(str.prefixof " + args[0].E + " " + args[1].E + ")", Sort: "Bool"}
	case "contains":
		return TExpr{E: "(str.contains " + args[0].E + " " + args[1].E + ")", Sort: "Bool"}
	case "substr":
		return TExpr{E: "(str.substr " + args[0].E + " " + args[1].E + " " + args[2].E + ")", Sort: "String"}
	case "anyIs":
		// anyIs(x, "ctor"): dynamic type test
		name := strings.Trim(args[1].E, "\"")
		return TExpr{E: "((_ is any_" + name + ") " + args[0].E + ")", Sort: "Bool"}
	}
	if f := s.eng.specFuncs[n.Fn]; f != nil {
		if len(f.Params) != len(args) {
			s.fail("%s expects %d arguments, got %d", n.Fn, len(f.Params), len(args))
		}
		var as []string
		for i, a := range args {
			want := userSort(f.Params[i].Sort)
			if a.Sort == "Nil" {
				a = s.nilOf(TExpr{Sort: want})
			}
			if a.Sort == "Int" && want == "Real" {
				a.E = "(to_real " + a.E + ")"
				a.Sort = "Real"
			}
			if a.Sort != want {
				s.fail("%s: argument %d has sort %s, want %s", n.Fn, i, a.Sort, want)
			}
			as = append(as, a.E)
		}
		if len(as) == 0 {
			return TExpr{E: f.Name, Sort: userSort(f.Ret)}
		}
		return TExpr{E: "(" + f.Name + " " + strings.Join(as, " ") + ")", Sort: userSort(f.Ret)}
	}
	if srt, ok := s.eng.smtFuncs[n.Fn]; ok {
		var as []string
		for _, a := range args {
			as = append(as, a.E)
		}
		if len(as) == 0 {
			return TExpr{E: n.Fn, Sort: srt}
		}
		return TExpr{E: "(" + n.Fn + " " + strings.Join(as, " ") + ")", Sort: srt}
	}
	s.fail("unknown function %q", n.Fn)
	return TExpr{}
}

func refOf(x TExpr) string {
	if x.Sort == "Slice" {
		return "(s_arr " + x.E + ")"
	}
	return x.E
}

// allocRef returns the allocation counter to compare against: entry value (old) by default.
func (s *Scope) allocRef(entry bool) string {
	for c := s; c != nil; c = c.parent {
		if v, ok := c.vars["$allocbase"]; ok && entry {
			return v.E
		}
	}
	if s.il == nil {
		s.fail("fresh/allocated outside a function context")
	}
	v := s.il.mvar("$alloc", "Int")
	if entry {
		return old(v)
	}
	return cur(v)
}
