package main

// Elaboration of specification expressions to SMT-LIB text.

import (
	"fmt"
	"go/types"
	"strconv"
	"strings"
)

type TExpr struct {
	E    string
	Sort string
	GoT  types.Type // optional
	Cell *CellRef   // the identifier denotes the content of a heap cell
	Ghost string    // a ghost heap component (must be indexed)
	FromCell string // the value was read from this heap cell (a captured variable)
	Var   *MVar     // a caller-local mutable variable captured by a contracted closure (for modifies)
	New   bool      // known to be allocated during the current API call (reads go to the new heap)
	Old   bool      // known to denote an object that existed before the current API call (reads go to the old heap)
}

type CellRef struct{ Comp, Sort, Ref string }

type Scope struct {
	vars    map[string]TExpr
	parent  *Scope
	eng     *Engine
	il      *ILFunc // heap variables are registered here; nil => no heap access allowed
	useOld  bool    // heap reads refer to the entry state
	oldHook func(s *Scope, n *NOld) (TExpr, bool)
	heapFn  func(comp, sort string) string // overrides heap variable reference (e.g. snapshot)
	pdepth  int
	learnConstOnly bool
	known   map[string]byte // reference term -> 'N' (allocated during this API call, or nil) / 'O' (older)
}

func (s *Scope) depth() int {
	d := 0
	for c := s; c != nil; c = c.parent {
		if c.pdepth > d {
			d = c.pdepth
		}
	}
	return d
}

func (s *Scope) child() *Scope {
	return &Scope{vars: map[string]TExpr{}, parent: s, eng: s.eng, il: s.il, useOld: s.useOld, oldHook: s.oldHook, heapFn: s.heapFn}
}

func (s *Scope) knownOf(ref string) byte {
	for c := s; c != nil; c = c.parent {
		if k, ok := c.known[ref]; ok {
			return k
		}
	}
	return 0
}

// learn records new(e) / newOrNil(e) / isold(e) conjuncts of an assumed formula (e an arbitrary reference expression).
func (s *Scope) learn(hyp Node) {
	switch x := hyp.(type) {
	case *NBinary:
		if x.Op == "&&" {
			s.learn(x.X)
			s.learn(x.Y)
		}
	case *NCall:
		if len(x.Args) != 1 {
			return
		}
		var k byte
		switch x.Fn {
		case "new", "newOrNil":
			k = 'N'
		case "isold":
			k = 'O'
		default:
			return
		}
		te, err := s.elab(x.Args[0])
		if err != nil {
			return
		}
		if s.learnConstOnly && strings.Contains(refOf(te), "@") {
			return // state-dependent term: only valid within the clause that states it
		}
		if s.known == nil {
			s.known = map[string]byte{}
		}
		s.known[refOf(te)] = k
	}
}

func (s *Scope) lookup(name string) (TExpr, bool) {
	for c := s; c != nil; c = c.parent {
		if v, ok := c.vars[name]; ok {
			return v, true
		}
	}
	return TExpr{}, false
}

// hsel reads heap component comp at ref in the state the scope denotes.
func (s *Scope) hselNew(comp, sort, ref string) string {
	v := s.il.mvar(comp, sort)
	v.Comp = comp
	nw := cur(v)
	if s.useOld {
		nw = old(v)
	}
	if s.heapFn != nil {
		nw = s.heapFn(comp, sort)
	}
	return fmt.Sprintf("(select %s %s)", nw, ref)
}

func (s *Scope) hsel(comp, sort, ref string, knownOld bool) string {
	if s.il == nil {
		panic(elabErr("heap access (" + comp + ") in a context without heap"))
	}
	if knownOld || s.knownOf(ref) == 'O' {
		return fmt.Sprintf("(select %s %s)", heapOldName(s.il, comp, sort), ref)
	}
	if s.knownOf(ref) == 'N' {
		return s.hselNew(comp, sort, ref)
	}
	return heapSel(s.il, comp, sort, ref, s.useOld, s.heapFn)
}

// oldNames collects identifiers v for which the formula n contains the conjunct isold(v).
func oldNames(n Node, out map[string]bool) {
	switch x := n.(type) {
	case *NBinary:
		if x.Op == "&&" {
			oldNames(x.X, out)
			oldNames(x.Y, out)
		}
	case *NCall:
		if x.Fn == "isold" && len(x.Args) == 1 {
			if id, ok := x.Args[0].(*NIdent); ok {
				out[id.Name] = true
			}
		}
	}
}

// withOld returns a scope in which the identifiers named by isold(...) conjuncts of hyp are known to be old.
func (s *Scope) withOld(hyp Node) *Scope {
	names := map[string]bool{}
	oldNames(hyp, names)
	c := s.child()
	c.learn(hyp)
	if len(names) == 0 && len(c.known) == 0 {
		return s
	}
	for n := range names {
		if v, ok := s.lookup(n); ok {
			v.Old = true
			c.vars[n] = v
		}
	}
	return c
}

type elabErr string

func userSort(n string) string {
	switch n {
	case "int", "Int", "Ref", "ref", "Kind":
		return "Int"
	case "bool", "Bool":
		return "Bool"
	case "string", "String":
		return "String"
	case "real", "Real", "float64":
		return "Real"
	}
	if strings.HasPrefix(n, "Array<") && strings.HasSuffix(n, ">") {
		parts := splitTop(n[6:len(n)-1], ',')
		if len(parts) == 2 {
			return "(Array " + userSort(strings.TrimSpace(parts[0])) + " " + userSort(strings.TrimSpace(parts[1])) + ")"
		}
	}
	return n
}

func smtString(s string) string {
	var sb strings.Builder
	sb.WriteByte('"')
	for _, r := range s {
		switch {
		case r == '"':
			sb.WriteString(`""`)
		case r < 32 || r > 126 || r == '\\':
			sb.WriteString(fmt.Sprintf(`\u{%x}`, r))
		default:
			sb.WriteRune(r)
		}
	}
	sb.WriteByte('"')
	return sb.String()
}

func smtInt(v string) string {
	if strings.HasPrefix(v, "-") {
		return "(- " + v[1:] + ")"
	}
	return v
}

func (s *Scope) elab(n Node) (te TExpr, err error) {
	defer func() {
		if r := recover(); r != nil {
			if ee, ok := r.(elabErr); ok {
				err = fmt.Errorf("%s", string(ee))
				return
			}
			panic(r)
		}
	}()
	return s.el(n), nil
}

func (s *Scope) fail(f string, a ...any) { panic(elabErr(fmt.Sprintf(f, a...))) }

func (s *Scope) el(n Node) TExpr {
	switch n := n.(type) {
	case *NInt:
		return TExpr{E: n.V, Sort: "Int"}
	case *NReal:
		return TExpr{E: n.V, Sort: "Real"}
	case *NStr:
		return TExpr{E: smtString(n.V), Sort: "String"}
	case *NBool:
		return TExpr{E: strconv.FormatBool(n.V), Sort: "Bool"}
	case *NNil:
		return TExpr{E: "0", Sort: "Nil"}
	case *NIdent:
		if v, ok := s.lookup(n.Name); ok {
			if v.Cell != nil {
				return TExpr{E: s.hsel(v.Cell.Comp, v.Cell.Sort, v.Cell.Ref, false), Sort: v.Sort, GoT: v.GoT, FromCell: v.Cell.Ref}
			}
			return v
		}
		if srt, ok := s.eng.ghost[n.Name]; ok {
			return TExpr{E: "", Sort: srt, Ghost: n.Name}
		}
		if f := s.eng.specFuncs[n.Name]; f != nil && len(f.Params) == 0 {
			return TExpr{E: f.Name, Sort: userSort(f.Ret)}
		}
		if c, ok := s.eng.smtConsts[n.Name]; ok {
			return TExpr{E: n.Name, Sort: c}
		}
		if s.il != nil {
			if g := s.eng.globalVar(n.Name); g != nil {
				t := g.Type().(*types.Pointer).Elem()
				srt := s.eng.sorts.sortOf(t).Sort
				name := "G_" + sanitize(g.Pkg.Pkg.Name()+"."+g.Name())
				if s.heapFn != nil {
					return TExpr{E: s.heapFn(name, srt), Sort: srt, GoT: t}
				}
				gv := s.il.mvar(name, srt)
				gv.Comp = name
				if s.useOld {
					return TExpr{E: old(gv), Sort: srt, GoT: t}
				}
				return TExpr{E: cur(gv), Sort: srt, GoT: t}
			}
		}
		switch n.Name {
		case "rv_invalid":
			return TExpr{E: "rv_invalid", Sort: "RV"}
		case "rt_nil":
			return TExpr{E: "rt_nil", Sort: "RT"}
		}
		s.fail("unknown identifier %q", n.Name)
	case *NOld:
		if s.oldHook != nil {
			if te, ok := s.oldHook(s, n); ok {
				return te
			}
		}
		c := s.child()
		c.useOld = true
		c.heapFn = nil
		return c.el(n.X)
	case *NIte:
		c := s.el(n.C)
		a := s.el(n.A)
		b := s.el(n.B)
		a, b = s.unify(a, b)
		return TExpr{E: fmt.Sprintf("(ite %s %s %s)", c.E, a.E, b.E), Sort: a.Sort, GoT: a.GoT}
	case *NUnary:
		x := s.el(n.X)
		switch n.Op {
		case "!":
			return TExpr{E: "(not " + x.E + ")", Sort: "Bool"}
		case "-":
			return TExpr{E: "(- " + x.E + ")", Sort: x.Sort}
		case "*":
			if x.GoT != nil {
				if p, ok := x.GoT.Underlying().(*types.Pointer); ok {
					comp, srt := s.eng.sorts.cellComp(p.Elem())
					return TExpr{E: s.hsel(comp, srt, x.E, x.Old), Sort: s.eng.sorts.sortOf(p.Elem()).Sort, GoT: p.Elem(), Old: x.Old}
				}
			}
			s.fail("cannot dereference value of sort %s", x.Sort)
		}
	case *NBinary:
		return s.elBinary(n)
	case *NQuant:
		c := s.child()
		var bs []string
		for _, v := range n.Vars {
			srt, gt := s.resolveSort(v.Sort)
			c.vars[v.Name] = TExpr{E: v.Name + "!q", Sort: srt, GoT: gt}
			bs = append(bs, fmt.Sprintf("(%s!q %s)", v.Name, srt))
		}
		body := c.el(n.Body)
		q := "exists"
		if n.Forall {
			q = "forall"
		}
		be := body.E
		if len(n.Patterns) > 0 {
			var ps []string
			for _, pat := range n.Patterns {
				var ts []string
				for _, t := range pat {
					ts = append(ts, c.el(t).E)
				}
				ps = append(ps, ":pattern ("+strings.Join(ts, " ")+")")
			}
			be = "(! " + be + " " + strings.Join(ps, " ") + ")"
		}
		return TExpr{E: fmt.Sprintf("(%s (%s) %s)", q, strings.Join(bs, " "), be), Sort: "Bool"}
	case *NField:
		return s.elField(n)
	case *NIndex:
		x := s.el(n.X)
		i := s.el(n.I)
		if x.Ghost != "" {
			parts := splitSortArgs(x.Sort)
			return TExpr{E: s.hsel(x.Ghost, x.Sort, i.E, i.Old), Sort: parts[1]}
		}
		if x.GoT != nil {
			switch u := x.GoT.Underlying().(type) {
			case *types.Slice:
				comp, srt := s.eng.sorts.elemComp(u.Elem())
				return TExpr{E: fmt.Sprintf("(select %s %s)", s.hsel(comp, srt, "(s_arr "+x.E+")", x.Old), i.E), Sort: s.eng.sorts.sortOf(u.Elem()).Sort, GoT: u.Elem(), Old: x.Old}
			case *types.Map:
				mi := s.eng.sorts.mapInfo(x.GoT)
				comp, srt := mi.valComp()
				return TExpr{E: fmt.Sprintf("(select %s %s)", s.hsel(comp, srt, x.E, x.Old), i.E), Sort: mi.VSort, GoT: u.Elem(), Old: x.Old}
			case *types.Basic:
				if u.Info()&types.IsString != 0 {
					return TExpr{E: fmt.Sprintf("(str.at %s %s)", x.E, i.E), Sort: "String"}
				}
			}
		}
		if strings.HasPrefix(x.Sort, "(Array ") {
			parts := splitSortArgs(x.Sort)
			return TExpr{E: fmt.Sprintf("(select %s %s)", x.E, i.E), Sort: parts[1]}
		}
		if x.Sort == "String" {
			return TExpr{E: fmt.Sprintf("(str.at %s %s)", x.E, i.E), Sort: "String"}
		}
		s.fail("cannot index value of sort %s", x.Sort)
	case *NCall:
		return s.elCall(n)
	}
	s.fail("cannot elaborate %T", n)
	return TExpr{}
}

// splitSortArgs splits "(Array K V)" into [K, V].
func splitSortArgs(srt string) []string {
	inner := strings.TrimSuffix(strings.TrimPrefix(srt, "(Array "), ")")
	depth := 0
	for i := 0; i < len(inner); i++ {
		switch inner[i] {
		case '(':
			depth++
		case ')':
			depth--
		case ' ':
			if depth == 0 {
				return []string{inner[:i], inner[i+1:]}
			}
		}
	}
	return []string{inner, ""}
}

// resolveSort maps a sort name in a specification to an SMT sort and, for Go types, the Go type.
func (s *Scope) resolveSort(name string) (string, types.Type) {
	switch name {
	case "int", "bool", "string", "real", "Ref", "Int", "Bool", "String", "Real":
		return userSort(name), nil
	}
	if strings.HasPrefix(name, "Array<") {
		return userSort(name), nil
	}
	if strings.HasPrefix(name, "keyof(") && strings.HasSuffix(name, ")") {
		v, ok := s.lookup(name[len("keyof(") : len(name)-1])
		if ok && v.GoT != nil {
			if m, ok := v.GoT.Underlying().(*types.Map); ok {
				return s.eng.sorts.sortOf(m.Key()).Sort, m.Key()
			}
		}
		s.fail("%s: not a map-typed variable", name)
	}
	if gt := s.eng.goTypeOf(name); gt != nil {
		return s.eng.sorts.sortOf(gt).Sort, gt
	}
	return userSort(name), nil
}

func (s *Scope) unify(a, b TExpr) (TExpr, TExpr) {
	if a.Sort == b.Sort {
		return a, b
	}
	if a.Sort == "Nil" {
		a = s.nilOf(b)
		return a, b
	}
	if b.Sort == "Nil" {
		b = s.nilOf(a)
		return a, b
	}
	if a.Sort == "Int" && b.Sort == "Real" {
		a = TExpr{E: "(to_real " + a.E + ")", Sort: "Real"}
	} else if a.Sort == "Real" && b.Sort == "Int" {
		b = TExpr{E: "(to_real " + b.E + ")", Sort: "Real"}
	}
	return a, b
}

func (s *Scope) nilOf(t TExpr) TExpr {
	switch t.Sort {
	case "Int":
		return TExpr{E: "0", Sort: "Int", GoT: t.GoT}
	case "Any":
		return TExpr{E: "any_nil", Sort: "Any"}
	case "Slice":
		return TExpr{E: "(mk_slice 0 0)", Sort: "Slice"}
	case "RT":
		return TExpr{E: "rt_nil", Sort: "RT"}
	case "Nil":
		return TExpr{E: "0", Sort: "Int"}
	}
	s.fail("nil is not a value of sort %s", t.Sort)
	return TExpr{}
}

func (s *Scope) elBinary(n *NBinary) TExpr {
	x := s.el(n.X)
	var y TExpr
	if n.Op == "&&" || n.Op == "==>" {
		y = s.withOld(n.X).el(n.Y)
	} else {
		y = s.el(n.Y)
	}
	switch n.Op {
	case "&&":
		return TExpr{E: "(and " + x.E + " " + y.E + ")", Sort: "Bool"}
	case "||":
		return TExpr{E: "(or " + x.E + " " + y.E + ")", Sort: "Bool"}
	case "==>":
		return TExpr{E: "(=> " + x.E + " " + y.E + ")", Sort: "Bool"}
	case "<==>":
		return TExpr{E: "(= " + x.E + " " + y.E + ")", Sort: "Bool"}
	case "==", "!=":
		var e string
		// nil-ness of a slice is a property of its backing reference
		if x.Sort == "Slice" && y.Sort == "Nil" {
			e = "(= (s_arr " + x.E + ") 0)"
		} else if y.Sort == "Slice" && x.Sort == "Nil" {
			e = "(= (s_arr " + y.E + ") 0)"
		} else {
			x, y = s.unify(x, y)
			if x.Sort != y.Sort {
				s.fail("comparing %s with %s", x.Sort, y.Sort)
			}
			e = "(= " + x.E + " " + y.E + ")"
		}
		if n.Op == "!=" {
			e = "(not " + e + ")"
		}
		return TExpr{E: e, Sort: "Bool"}
	case "<", "<=", ">", ">=":
		x, y = s.unify(x, y)
		if x.Sort != "String" && x.Sort != "Int" && x.Sort != "Real" || x.Sort != y.Sort {
			s.fail("ill-sorted comparison %s %s %s", x.Sort, n.Op, y.Sort)
		}
		if x.Sort == "String" {
			switch n.Op {
			case "<":
				return TExpr{E: "(str.< " + x.E + " " + y.E + ")", Sort: "Bool"}
			case "<=":
				return TExpr{E: "(str.<= " + x.E + " " + y.E + ")", Sort: "Bool"}
			case ">":
				return TExpr{E: "(str.< " + y.E + " " + x.E + ")", Sort: "Bool"}
			case ">=":
				return TExpr{E: "(str.<= " + y.E + " " + x.E + ")", Sort: "Bool"}
			}
		}
		return TExpr{E: "(" + n.Op + " " + x.E + " " + y.E + ")", Sort: "Bool"}
	case "+", "-", "*":
		x, y = s.unify(x, y)
		if x.Sort == "String" && n.Op == "+" {
			return TExpr{E: "(str.++ " + x.E + " " + y.E + ")", Sort: "String"}
		}
		return TExpr{E: "(" + n.Op + " " + x.E + " " + y.E + ")", Sort: x.Sort}
	case "++":
		return TExpr{E: "(str.++ " + x.E + " " + y.E + ")", Sort: "String"}
	case "/":
		x, y = s.unify(x, y)
		if x.Sort == "Int" {
			return TExpr{E: "(div " + x.E + " " + y.E + ")", Sort: "Int"}
		}
		return TExpr{E: "(/ " + x.E + " " + y.E + ")", Sort: "Real"}
	case "%":
		return TExpr{E: "(mod " + x.E + " " + y.E + ")", Sort: "Int"}
	}
	s.fail("unknown operator %s", n.Op)
	return TExpr{}
}

func (s *Scope) elField(n *NField) TExpr {
	x := s.el(n.X)
	if x.GoT != nil {
		t := x.GoT
		if p, ok := t.Underlying().(*types.Pointer); ok {
			if st, ok := p.Elem().Underlying().(*types.Struct); ok {
				idx, ft := findField(st, n.Name)
				if idx < 0 {
					s.fail("no field %s in %s", n.Name, t)
				}
				comp, srt := s.eng.sorts.fieldComp(p.Elem(), idx)
				if x.New && !x.Old {
					return TExpr{E: s.hselNew(comp, srt, x.E), Sort: s.eng.sorts.sortOf(ft).Sort, GoT: ft}
				}
				return TExpr{E: s.hsel(comp, srt, x.E, x.Old), Sort: s.eng.sorts.sortOf(ft).Sort, GoT: ft, Old: x.Old}
			}
		}
		if st, ok := t.Underlying().(*types.Struct); ok && !strings.HasPrefix(x.Sort, "R") {
			idx, ft := findField(st, n.Name)
			if idx < 0 {
				s.fail("no field %s in %s", n.Name, t)
			}
			si := s.eng.sorts.structInfo(t)
			return TExpr{E: fmt.Sprintf("(%s_%s %s)", si.Name, n.Name, x.E), Sort: s.eng.sorts.sortOf(ft).Sort, GoT: ft, Old: x.Old}
		}
	}
	switch x.Sort {
	case "Slice":
		switch n.Name {
		case "arr":
			return TExpr{E: "(s_arr " + x.E + ")", Sort: "Int"}
		case "len":
			return TExpr{E: "(s_len " + x.E + ")", Sort: "Int"}
		}
	}
	// accessor of a user datatype
	if srt, ok := s.eng.smtFuncs[n.Name]; ok {
		return TExpr{E: "(" + n.Name + " " + x.E + ")", Sort: srt}
	}
	s.fail("cannot select .%s from value of sort %s", n.Name, x.Sort)
	return TExpr{}
}

func findField(st *types.Struct, name string) (int, types.Type) {
	for i := 0; i < st.NumFields(); i++ {
		if st.Field(i).Name() == name {
			return i, st.Field(i).Type()
		}
	}
	// promoted through embedded pointer/struct: not supported in specs
	return -1, nil
}

func (s *Scope) elCall(n *NCall) TExpr {
	args := make([]TExpr, len(n.Args))
	for i, a := range n.Args {
		args[i] = s.el(a)
	}
	switch n.Fn {
	case "len":
		x := args[0]
		switch {
		case x.Sort == "Slice":
			return TExpr{E: "(s_len " + x.E + ")", Sort: "Int"}
		case x.Sort == "String":
			return TExpr{E: "(str.len " + x.E + ")", Sort: "Int"}
		case x.GoT != nil:
			if _, ok := x.GoT.Underlying().(*types.Map); ok {
				mi := s.eng.sorts.mapInfo(x.GoT)
				comp, srt := mi.lenComp()
				return TExpr{E: s.hsel(comp, srt, x.E, x.Old), Sort: "Int"}
			}
		}
		s.fail("len of sort %s", x.Sort)
	case "has":
		x := args[0]
		if x.GoT != nil {
			if _, ok := x.GoT.Underlying().(*types.Map); ok {
				mi := s.eng.sorts.mapInfo(x.GoT)
				comp, srt := mi.domComp()
				return TExpr{E: fmt.Sprintf("(select %s %s)", s.hsel(comp, srt, x.E, x.Old), args[1].E), Sort: "Bool"}
			}
		}
		s.fail("has() needs a Go map")
	case "fresh":
		// allocated since function entry (or since the call, in a callee postcondition at a call site)
		return TExpr{E: fmt.Sprintf("(> %s %s)", refOf(args[0]), s.allocRef(true)), Sort: "Bool"}
	case "new":
		// allocated during the current API call (not visible to the caller of the API)
		return TExpr{E: fmt.Sprintf("(> %s epoch)", refOf(args[0])), Sort: "Bool"}
	case "newOrNil":
		return TExpr{E: fmt.Sprintf("(or (= %s 0) (> %s epoch))", refOf(args[0]), refOf(args[0])), Sort: "Bool"}
	case "isold":
		return TExpr{E: fmt.Sprintf("(<= %s epoch)", refOf(args[0])), Sort: "Bool"}
	case "allocated":
		return TExpr{E: fmt.Sprintf("(<= %s %s)", refOf(args[0]), s.allocRef(false)), Sort: "Bool"}
	case "isnil":
		x := args[0]
		if x.Sort == "Slice" {
			return TExpr{E: "(= (s_arr " + x.E + ") 0)", Sort: "Bool"}
		}
		nl := s.nilOf(x)
		return TExpr{E: "(= " + x.E + " " + nl.E + ")", Sort: "Bool"}
	case "toreal":
		return TExpr{E: "(to_real " + args[0].E + ")", Sort: "Real"}
	case "toint":
		return TExpr{E: "(to_int " + args[0].E + ")", Sort: "Int"}
	case "isint":
		return TExpr{E: "(is_int " + args[0].E + ")", Sort: "Bool"}
	case "select":
		parts := splitSortArgs(args[0].Sort)
		return TExpr{E: "(select " + args[0].E + " " + args[1].E + ")", Sort: parts[1]}
	case "store":
		return TExpr{E: "(store " + args[0].E + " " + args[1].E + " " + args[2].E + ")", Sort: args[0].Sort}
	case "prefixof":
		return TExpr{E: "(str.prefixof " + args[0].E + " " + args[1].E + ")", Sort: "Bool"}
	case "contains":
		return TExpr{E: "(str.contains " + args[0].E + " " + args[1].E + ")", Sort: "Bool"}
	case "substr":
		return TExpr{E: "(str.substr " + args[0].E + " " + args[1].E + " " + args[2].E + ")", Sort: "String"}
	case "pre":
		// pre(e): e evaluated in the state in which the loop was entered (loop invariants only)
		x := args[0]
		x.E = strings.ReplaceAll(x.E, "@{", "@pre{")
		return x
	case "anyOf":
		// anyOf(x, "Go type"): x boxed in an interface value of that dynamic type
		lit, ok := n.Args[1].(*NStr)
		if !ok {
			s.fail("anyOf needs a type string")
		}
		gt := s.eng.goTypeOf(lit.V)
		if gt == nil {
			s.fail("unknown Go type %q", lit.V)
		}
		c := s.eng.sorts.anyCtor(gt)
		return TExpr{E: "(" + c.Name + " " + args[0].E + ")", Sort: "Any"}
	case "anyIs", "anyVal":
		// anyIs(x, "Go type"): dynamic type test; anyVal(x, "Go type"): the boxed value
		lit, ok := n.Args[1].(*NStr)
		if !ok {
			s.fail("%s needs a type string", n.Fn)
		}
		gt := s.eng.goTypeOf(lit.V)
		if gt == nil {
			s.fail("unknown Go type %q", lit.V)
		}
		c := s.eng.sorts.anyCtor(gt)
		if n.Fn == "anyIs" {
			return TExpr{E: "((_ is " + c.Name + ") " + args[0].E + ")", Sort: "Bool"}
		}
		return TExpr{E: "(val_" + c.Name + " " + args[0].E + ")", Sort: c.Sort, GoT: gt}
	case "addr":
		id, ok := n.Args[0].(*NIdent)
		if !ok || s.eng.globalVar(id.Name) == nil {
			s.fail("addr() needs a package-level variable")
		}
		g := s.eng.globalVar(id.Name)
		return TExpr{E: "gaddr_G_" + sanitize(g.Pkg.Pkg.Name()+"."+g.Name()), Sort: "Int"}
	}
	if p := s.eng.preds[n.Fn]; p != nil {
		if len(p.Params) != len(args) {
			s.fail("%s expects %d arguments, got %d", n.Fn, len(p.Params), len(args))
		}
		if s.depth() > 40 {
			s.fail("predicate expansion too deep (recursive pred %s?)", n.Fn)
		}
		c := &Scope{vars: map[string]TExpr{}, parent: nil, eng: s.eng, il: s.il, useOld: s.useOld, oldHook: s.oldHook, heapFn: s.heapFn, pdepth: s.depth() + 1}
		for i, pv := range p.Params {
			srt, gt := s.resolveSort(pv.Sort)
			a := args[i]
			if a.Sort == "Nil" {
				a = s.nilOf(TExpr{Sort: srt})
			}
			if a.Sort != srt {
				s.fail("%s: argument %d has sort %s, want %s", n.Fn, i, a.Sort, srt)
			}
			if gt != nil {
				a.GoT = gt
			}
			a.Cell = nil
			c.vars[pv.Name] = a
		}
		r := c.el(p.Body)
		return TExpr{E: r.E, Sort: "Bool"}
	}
	if f := s.eng.specFuncs[n.Fn]; f != nil {
		if len(f.Params) != len(args) {
			s.fail("%s expects %d arguments, got %d", n.Fn, len(f.Params), len(args))
		}
		var as []string
		for i, a := range args {
			want := userSort(f.Params[i].Sort)
			if a.Sort == "Nil" {
				a = s.nilOf(TExpr{Sort: want})
			}
			if a.Sort == "Int" && want == "Real" {
				a.E = "(to_real " + a.E + ")"
				a.Sort = "Real"
			}
			if a.Sort != want {
				s.fail("%s: argument %d has sort %s, want %s", n.Fn, i, a.Sort, want)
			}
			as = append(as, a.E)
		}
		if len(as) == 0 {
			return TExpr{E: f.Name, Sort: userSort(f.Ret)}
		}
		return TExpr{E: "(" + f.Name + " " + strings.Join(as, " ") + ")", Sort: userSort(f.Ret)}
	}
	if srt, ok := s.eng.smtFuncs[n.Fn]; ok {
		var as []string
		for _, a := range args {
			as = append(as, a.E)
		}
		if len(as) == 0 {
			return TExpr{E: n.Fn, Sort: srt}
		}
		return TExpr{E: "(" + n.Fn + " " + strings.Join(as, " ") + ")", Sort: srt}
	}
	s.fail("unknown function %q", n.Fn)
	return TExpr{}
}

func refOf(x TExpr) string {
	if x.Sort == "Slice" {
		return "(s_arr " + x.E + ")"
	}
	if x.Sort != "Int" && x.Sort != "Nil" {
		if x.FromCell != "" {
			return x.FromCell // a captured bool/string/... variable: the reference is its cell
		}
		panic(elabErr(fmt.Sprintf("reference expected, got a value of sort %s (%s)", x.Sort, x.E)))
	}
	return x.E
}

// allocRef returns the allocation counter to compare against: entry value (old) by default.
func (s *Scope) allocRef(entry bool) string {
	for c := s; c != nil; c = c.parent {
		if v, ok := c.vars["$allocbase"]; ok && entry {
			return v.E
		}
	}
	if s.il == nil {
		s.fail("fresh/allocated outside a function context")
	}
	v := s.il.mvar("$alloc", "Int")
	if entry {
		return old(v)
	}
	return cur(v)
}
