#!/usr/bin/env python3
"""Writes /verif/seeded/<id>/meta.json from the sub-agent's notes.md and the self-test results."""
import json, os, re
V = "/verif"
res = {}
pj = f"{V}/selftest/RESULTS.json"
if os.path.exists(pj):
    res = {r["name"]: r for r in json.load(open(pj))}
for d in sorted(os.listdir(f"{V}/seeded")):
    p = f"{V}/seeded/{d}"
    if not os.path.exists(f"{p}/patch.diff"):
        continue
    notes = open(f"{p}/notes.md").read() if os.path.exists(f"{p}/notes.md") else ""
    title = (re.search(r"^# (.*)$", notes, re.M) or [None, d])[1]
    def section(name):
        m = re.search(r"^## %s.*?\n(.*?)(?=^## |\Z)" % name, notes, re.M | re.S)
        return m.group(1).strip() if m else ""
    files = sorted(set(re.findall(r"^\+\+\+ b/(.*)$", open(f"{p}/patch.diff").read(), re.M)))
    prev = {}
    if os.path.exists(f"{p}/meta.json"):
        try: prev = json.load(open(f"{p}/meta.json"))
        except Exception: prev = {}
    r = res.get(d, {})
    runs = r.get("runs", [])
    meta = {
        "id": d,
        "property": d.split("-")[0],
        "title": title,
        "files_changed": files,
        "origin": "fresh sub-agent given only the text of the property and a scratch git worktree of /repo (no access to /verif)",
        "needs_to_manifest": section("What is needed to manifest") or section("What breaks"),
        "what_breaks": section("What breaks"),
        "demonstration": "demo_test.go (in-package test; fails on the patched tree, passes on the unpatched tree)",
        "confirmed_by": "tools/seedconfirm.sh / seedconfirm2.sh in the sub-agent's scratch worktree: (i) full pinned suite passes with the patch, (ii) the demonstration test fails with the patch, (iii) it passes without the patch; worktree removed afterwards",
        "rebased": os.path.exists(f"{p}/patch.orig.diff"),
        "expected_checks": prev.get("expected_checks") or [d.split("-")[0]],
        "round": prev.get("round_fixed") or (4 if d in ("C02-2", "C07-4", "C01-4") else int(d.split("-")[1])),
        "selftest": [{"check": x["property"], "caught": x["exit"] == 1 and x["violations"] > 0, "violations": x["violations"],
                      "obligations": x["obligations"][:5], "wall_s": x["wall_s"]} for x in runs],
    }
    json.dump(meta, open(f"{p}/meta.json", "w"), indent=1)
    print(d, [(x["check"], x["caught"]) for x in meta["selftest"]])
