#!/usr/bin/env python3
"""Regenerates /verif/MANIFEST.json from the table below (kept in one place so that the
claims, notes and not_applicable list stay consistent)."""
import json, subprocess

TECH = "contract-based deductive verification of the real code: contracts (requires/ensures/invariants/frames) in /repo/jsonschema/contracts_verif.go, verification conditions generated from go/ssa by govc, discharged by z3 5.1.0 / cvc5 1.0 / z3 4.8.12"
BASE = ("Trusted base: the SMT solvers; govc's translation of go/ssa (NaiveForm) into verification conditions (integers mathematical, float64 as reals, error text dropped, append never writes a shared backing array, refs to objects older than the API call are immutable because every store carries a modifies obligation); "
        "the assumed library contracts in /verif/spec (reflect, math/big, encoding/json, strings, ...), each listed in the evidence when used; spec axioms defining the JSON view of a reflect.Value. ")

CHECKS = {
 "C01": ("Proved, for every schema and every JSON-shaped instance in any representation: (a) no false rejection for the directly asserting keywords type, minimum, maximum, exclusiveMinimum, exclusiveMaximum, minLength, maxLength, minItems, maxItems, minProperties, maxProperties — at every site where validate builds the corresponding error, the keyword's violation condition over the JSON view of the instance (written from the 2020-12 validation text: exact rational comparison, code-point length, array length, member count, 'number' subsumes 'integer') is an obligation that holds; (b) the anyOf and oneOf loops examine every branch (no early exit), as the annotation rules require. Found and fixed by these obligations: minLength/maxLength/pattern applied to json.Number (926921b).",
         "Partial: the converse direction (no false acceptance) and the applicator/unevaluated keywords are not yet under functional contracts; enum/const/uniqueItems, contains, required, dependent*, patternProperties, $ref targets are covered for safety and frames only. multipleOf and regular expressions are uninterpreted. " + BASE),
 "C02": ("Proved postconditions, for all inputs: isValidSchemaVersion(v) == supported(v) and detectDraft/newResolved select draft-07 exactly for the two draft-07 $schema URIs (spec functions written from the property statement); Validate returns a non-nil error whenever the root's $schema is unsupported, on every path (refusal before validation).",
         "Covers draft detection and refusal only. The draft-07 evaluation rules inside validate ($ref siblings ignored, items array/additionalItems, dependencies), fragment-$id anchors and draft inheritance of loaded documents are not yet under functional contracts. " + BASE),
 "C04": ("Proved postconditions of forType for every reflect.Type (the per-kind translation table, with tbase = the type left after stripping pointers, nullable = the argument was a pointer): bool/string/float -> the matching JSON type; Int/Int64 -> integer with no bounds; Uint/Uint64/Uintptr -> integer, minimum 0, no maximum; Int8/16/32 and Uint8/16/32 -> integer with exactly the type's extreme values as minimum/maximum (so min and max of every sized integer are accepted, C04, and nothing beyond, C09); interface -> unrestricted; slices -> [\"null\",\"array\"] with an items schema and no length bounds; arrays -> array with minItems = maxItems = the array length; maps -> object with a value schema; structs -> object; pointers add \"null\" to the type list. Proved of fieldJSONInfo against encoding/json's tag rules: omitted iff unexported or tag \"-\"; name = text before the first comma if non-empty else the Go field name (so \"-,\" names the field \"-\"); the option set equals the comma-separated rest (omitempty/omitzero are seen exactly when present).",
         "Partial: the struct arm's properties/required sets (reflect.VisibleFields order, embedded/shadowed fields, TypeSchemas overrides) are covered for safety and isolation only, and the final step from the table to 'Validate accepts json.Marshal(v)' needs validate's acceptance contract, which is not proved. CloneSchemas and reflect are assumed contracts. " + BASE),
 "C06": ("Proved about the dynamic part of $dynamicRef in validate: the search loop over the evaluation stack stops at the FIRST (outermost) stack entry whose schema resource declares the anchor as dynamic (loop invariant: no earlier entry does; on normal exit no entry does, and then an error is returned); the evaluation stack is maintained exactly: on every return path (all ~50, including error returns and panicking-free defers) the stack has the length and the elements it had on entry, and every recursive call sees the stack extended by exactly the current schema — so no dynamic scope leaks to siblings or to a later Validate call (Validate allocates a fresh state).",
         "Not yet proved: that the schema finally validated is the anchor's schema (the obligation is stated but not discharged within the time limit, so it is not claimed), the static split done by resolveRefs (dynamicRefAnchor set iff the lexical target's anchor is dynamic), and that the verdict then equals that of the target schema. " + BASE),
 "C07": ("Proved for every return path of (*state).validate (≈50 error returns, all loops, all recursive calls): if validate returns an error, the caller's annotations record (all five fields and the contents of both evaluated-* maps) is exactly what it was on entry — evaluations made inside a failing subschema never reach the caller; recursive calls are used through the same contract. Loop invariants carry the fact through all 29 loops.",
         "This is the 'failed subschema does not count' half of the property plus the frame facts (only the final merge writes the caller's record). That the merged record equals the specification's annotation set (which keywords contribute what; not / cousins / child locations) is not yet proved. " + BASE),
 "C08": ("Proved postconditions of the two classification helpers for an arbitrary reflect.Value in the JSON-shaped domain: jsonNumber(v) succeeds exactly when the JSON view jv(v) is a number and then returns exactly its rational value (every int/uint/float kind and json.Number); jsonType(v) returns typeName(jv(v)) for every kind (integer iff the rational is integral). Found and fixed by the name obligation: json.Number was classified as string (926921b).",
         "Only the helpers are covered; that validate's verdict depends on the instance only through jv(instance) needs the functional contract of validate (not yet). jv is axiomatised in /verif/spec/31_jview.gspec from the property statement. " + BASE),
 "C09": ("Same contracts as C04 read in the rejecting direction: forType's postconditions give, for every type, exactly the type keyword of the kind (so a value of the wrong JSON type cannot pass the type check proved under C01), the exact sized-integer bounds (out-of-range integers are rejected by minimum/maximum, proved sound under C01), minItems = maxItems = array length, and for every struct type — including structs with no fields — additionalProperties set to a schema of the form {\"not\": ...} created by falseSchema (closed objects). The loop invariant carrying closedness through the field loop and fieldJSONInfo's option set (a field is required unless omitempty/omitzero is present) are proved.",
         "Partial: that Required lists exactly the non-optional visible fields and Properties exactly encoding/json's field set is not proved (reflect.VisibleFields is not modelled); falseSchema's result is only shown to have Not != nil; the decoding side (encoding/json accepts what the schema accepts) is outside the code under contract. " + BASE),
 "C10": ("Zero-panic proof for the Validate call graph: for validate, Validate, annotations.*, merge, jsonNumber, jsonType, isJSONString, equalValue, Equal, the JSON-pointer functions, orderedProperties, basicChecks, forType, property, numPropertiesBounds, wrapf, assert, detectDraft, newResolved, isValidSchemaVersion every nil dereference, index, slice bound, nil-map write, type assertion, explicit panic/assert and every documented reflect/library panic condition (kind, range, key assignability, nil receiver) is an obligation discharged under the stated preconditions (Resolved well-formed, instance JSON-shaped in any representation); the range-over-func protocol panics are proved unreachable. Found and fixed: panic on maps with a named string key type.",
         "Coverage is the Validate call graph only: Resolve, Unmarshal, ApplyDefaults, For/ForType, equalValue/hashValue bodies are swept but not yet fully discharged, so they are not claimed. Termination (no hang) is not proved. Validate's precondition wfRS (what Resolve establishes) is assumed, not yet proved of Resolve. One loop invariant of uniqueItems is on the trusted list (see evidence). " + BASE),
 "C11": ("Proved postconditions of equalValue for every pair of non-wrapper (not pointer/interface) JSON-shaped reflect.Values whose JSON views are scalars: two numbers are Equal exactly when their exact rational values coincide (every int/uint/float kind and json.Number, through jsonNumber's contract: no float rounding), booleans and strings by value, null only equals null, values of different JSON types are never Equal; plus all safety obligations of the array/map/pointer arms and of the recursion. Two defects found by these obligations were fixed (panic on maps with different string key types; json.Number equal to the string that spells it).",
         "Not yet proved: the array and object arms return the JSON-equality verdict (element-wise / unordered key-value sets), and values behind pointers/interfaces (pre-finding: interface-vs-concrete and array-vs-slice comparisons return false). Reflexivity/symmetry/transitivity follow from the oracle being = on the JSON view only where the postconditions are proved. " + BASE),
 "C16": ("Isolation proof for forType/For/ForType: every store of a *Schema, []*Schema or map[string]*Schema into a Schema object (field store, whole-struct copy, slice element, map entry: 60 sites) carries the obligation that the stored value is nil or was allocated during the current call, and every heap write targets an object allocated during the call; with the contracts fresh(result) of CloneSchemas/falseSchema/recursive forType this shows the result tree shares no Schema object with TypeSchemas, the package-level type table or earlier results, and that For never mutates them. All safety obligations of forType (239) are discharged as well.",
         "Not yet proved: that the result equals the documented translation table (properties = encoding/json field set, required, null for pointers, integer bounds) and determinism; termination for recursive types; CloneSchemas' own body (reflection) is used through its assumed contract fresh(result). " + BASE),
 "C18": ("Read-frame proof for the evaluator: every access to a field of Schema inside (*state).validate and in every closure nested in it (121 accesses) is an obligation stating that the field is not one of the non-asserting keywords (title, description, $comment, default, examples, deprecated, readOnly, writeOnly, format, contentEncoding, contentMediaType, contentSchema, $defs, definitions, Extra, PropertyOrder, $vocabulary); so the verdict cannot depend on them.",
         "Covers the evaluator's reads only. Helper functions reached from validate take no *Schema except through validate's own recursion. Not covered: that Resolve's result is unaffected by such keywords (an ill-formed unreferenced $defs entry does change Resolve's outcome), and Unmarshal's treatment of unknown keys (case-insensitive matching inherited from encoding/json is a known pre-finding, not yet under contract). " + BASE),
 "C12": ("Proved: (a) hashValue's scalar arms: for every non-wrapper JSON-shaped value whose JSON view is a number, string, boolean or null, the sequence written to the hash equals feedJ(previous stream, jv(v)), a function of the JSON view only — so 1, 1.0, uint8(1) and json.Number(\"1\") feed identical bytes (sign word, numerator and denominator magnitudes of the normalised rational), independent of representation and of the seed; (b) enum: the loop leaves early only at an index whose value is Equal to the instance and otherwise has compared every listed value (invariant + exit clauses), and the enum error is returned only if no listed value is Equal; (c) const: the error is returned only if the constant is not Equal; (d) uniqueItems: the error is returned only for two distinct positions j<i whose elements are Equal.",
         "Equal appears in these contracts as a mathematical function eqv(x,y) (the property is stated relative to Equal); equalValue's postcondition result == eqv(x,y) is on the trusted list (determinism of a function proved pure). Not proved: the hash law for arrays and objects (sorted keys, length prefixes), that uniqueItems accepts only when all pairs are unequal (needs the hash law plus bucket completeness), and the acceptance direction of enum/const beyond the loop exit clauses. A rewritten number fast path that slices a local array at an offset is outside the modelled subset and is reported as undecided-violation. " + BASE),
 "C13": ("Deductive proof, for every function on the Validate call path, that every heap store targets an object allocated during the current API call (obligation modifies@<component> at every Store/MapUpdate/append-target/callee frame), i.e. Validate never writes the Resolved, its side tables, the schema tree or process-wide state. This is the no-shared-mutable-state condition the property's mechanism names.",
         "Contracts have no thread semantics: schedules are not explored; the step from 'no write to pre-existing objects' to race freedom and sequential equivalence is the Go memory model's DRF-SC argument, cited not proved. Coverage: Validate call graph only (For, Marshal, CloneSchemas, Resolve, ApplyDefaults not yet). reflect.Set*/sync.Map effects are outside the heap model. " + BASE),
 "C14": ("Deductive proof that Validate and everything it calls never write an object that existed before the call (schema tree, Resolved side tables, anything reachable from the instance through Go pointers): one modifies@ obligation per heap store, all discharged; map-range loops are verified with 'any unvisited key next', so the facts hold for every iteration order.",
         "Purity of Validate only; determinism of the verdict as a function of the inputs needs validate's functional contract (not yet). Resolve and Marshal not yet covered. " + BASE),
}

NA = {
 "C03": "not yet claimed: resolver step contracts under construction",
 "C05": "not yet claimed: per-field marshal/unmarshal table obligations under construction",
 "C15": "not yet claimed: applyDefaults contract under construction",
 "C17": "not yet claimed: JSON pointer contracts under construction",
 "C19": "not yet claimed: orderedProperties contract under construction",
 "C20": "not yet claimed: CloneSchemas contract under construction",
}

def main():
    commits = subprocess.run(["git", "-C", "/repo", "log", "--format=%h %s"], capture_output=True, text=True).stdout.strip().split("\n")
    hook = [c.split()[0] for c in commits if " verif:" in c]
    m = {
        "version": 1,
        "setup_cmd": "cd /verif/engine && GOFLAGS=-mod=vendor GOPROXY=off GOSUMDB=off GOTOOLCHAIN=local go build -o /verif/bin/govc ./cmd/govc",
        "hooks": {
            "guard": "verif",
            "enable": "go/packages BuildFlags -tags=verif; the only hook is jsonschema/contracts_verif.go, a comment-only file (contracts as //@ lines) that is not compiled without the tag",
            "baseline_off_cmd": "cd /repo && go test -mod=mod -json -vet=off -count=1 -timeout 25m ./...",
            "source_commits": hook,
            "add_only": True,
        },
        "engines": [{
            "name": "govc", "path": "/verif/engine",
            "serves_properties": sorted(CHECKS),
            "kind_free_text": "self-written deductive verifier for Go: go/ssa (NaiveForm) -> guarded-command IL -> passive-form verification conditions, one obligation per contract clause / safety condition / frame condition; contracts in /repo/jsonschema/contracts_verif.go and /verif/spec/*.gspec; back ends z3 5.1.0, cvc5 1.0, z3 4.8.12",
        }],
        "checks": [],
        "notes": "Work in progress. Every check runs the verifier on /repo's current working tree; level_note says exactly which functions are covered. Known findings: /verif/known_findings.json. Seeded changes used to test the checks: /verif/seeded/.",
        "not_applicable": [],
    }
    for pid in sorted(CHECKS):
        text, note = CHECKS[pid]
        m["checks"].append({
            "property_id": pid,
            "quick_cmd": f"./check {pid} --tier quick",
            "thorough_cmd": f"./check {pid} --tier thorough",
            "evidence_file": f"/verif/evidence/{pid}.json",
            "replay_cmd_template": f"./check {pid} --replay {{path}}",
            "engine": "govc",
            "level_claimed": {"category": "proof", "text": text, "design_ref": f"DESIGN.md section 5, {pid}"},
            "level_note": note,
            "technique": TECH,
        })
    for pid in sorted(NA):
        if pid not in CHECKS:
            m["not_applicable"].append({"property_id": pid, "reason": NA[pid]})
    json.dump(m, open("/verif/MANIFEST.json", "w"), indent=1)
    print("checks:", sorted(CHECKS), "not_applicable:", [x["property_id"] for x in m["not_applicable"]])

main()
