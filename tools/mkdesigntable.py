#!/usr/bin/env python3
"""Rewrites the self-test table in DESIGN.md from /verif/selftest/RESULTS.json."""
import json
res=json.load(open('/verif/selftest/RESULTS.json'))
rows=[]
for r in res:
    if 'error' in r:
        rows.append(f"| {r['name']} | - | error: {r['error']} | | |"); continue
    for x in r['runs']:
        caught = x['exit']==1 and x['violations']>0
        ob = '; '.join(o.replace('|','\\|') for o in x['obligations'][:2]) or ('contract drift' if caught else '')
        rows.append(f"| {r['name']} | {x['property']} | {'caught' if caught else 'not by this check'} | {x['violations']} | {ob} |")
tab="| change | check | result | violations | first failing obligations |\n|---|---|---|---|---|\n"+"\n".join(rows)+"\n"
s=open('/verif/DESIGN.md').read()
a=s.index('<!-- SELFTEST-TABLE-BEGIN -->')+len('<!-- SELFTEST-TABLE-BEGIN -->\n')
b=s.index('<!-- SELFTEST-TABLE-END -->')
open('/verif/DESIGN.md','w').write(s[:a]+tab+s[b:])
print(len(rows),'rows')
