#!/bin/sh
# usage: seedrun.sh <seed-dir-name> <property>...   -- apply a seeded change to /repo, run checks, undo it
S=/verif/seeded/$1; shift
cd /repo || exit 2
if [ -n "$(git status --porcelain)" ]; then echo "refusing: /repo has uncommitted changes"; exit 2; fi
git apply $S/patch.diff || exit 2
for p in "$@"; do
  echo "---- check $p with $S"
  (cd /verif && ./check $p 2>&1 | grep -v conda | grep "VIOLATION\|KNOWN\|^check\|DRIFT\|ENGINE" | cut -c1-260)
done
git apply -R $S/patch.diff
git status --short
