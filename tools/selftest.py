#!/usr/bin/env python3
"""Must-fail self-test of the checks.

For every seeded change in /verif/seeded/<id>/ (patch.diff) and for every defect that was repaired by a
"fix:" commit (known_findings.json, status fixed), a scratch worktree of /repo is created under /tmp, the
change is applied (or the fix reverse-applied), the check of the property is run against that worktree with
its own scratch verification directory, and the outcome is recorded: the check must exit 1 with a VIOLATION
line. Nothing in /repo or /verif/evidence is touched; the worktrees are removed afterwards.

usage: tools/selftest.py [-j N] [names...]      results: /verif/selftest/RESULTS.json and RESULTS.md
"""
import json, os, re, shutil, subprocess, sys, time
from concurrent.futures import ThreadPoolExecutor

VERIF = "/verif"
REPO = "/repo"
SCR = "/tmp/govc-selftest"
ENV = dict(os.environ, GOFLAGS="-mod=mod", GOPROXY="off", GOSUMDB="off", GOTOOLCHAIN="local")


def sh(cmd, cwd=None, check=False):
    return subprocess.run(cmd, shell=True, cwd=cwd, capture_output=True, text=True, env=ENV)


def cases():
    out = []
    for d in sorted(os.listdir(f"{VERIF}/seeded")):
        p = f"{VERIF}/seeded/{d}"
        if not os.path.exists(f"{p}/patch.diff"):
            continue
        props = [d.split("-")[0]]
        meta = f"{p}/meta.json"
        if os.path.exists(meta):
            m = json.load(open(meta))
            props = m.get("expected_checks") or props
        out.append({"name": d, "kind": "seeded", "patch": f"{p}/patch.diff", "reverse": False, "props": props})
    kf = json.load(open(f"{VERIF}/known_findings.json"))
    seen = set()
    for f in kf["findings"]:
        if f.get("status") != "fixed" or not f.get("commit"):
            continue
        key = (f["commit"], f["property"])
        if key in seen:
            continue
        seen.add(key)
        out.append({"name": f"fixed-{f['property']}-{f['commit']}", "kind": "reverted-fix", "commit": f["commit"],
                    "reverse": True, "props": sorted({f["property"], "C10"}), "expect_obligations": f.get("obligations", [])})
    return out


def run_case(c):
    name = c["name"]
    wt = f"{SCR}/wt-{name}"
    vd = f"{SCR}/v-{name}"
    res = {"name": name, "kind": c["kind"], "props": c["props"], "runs": []}
    try:
        sh(f"git -C {REPO} worktree remove --force {wt}")
        shutil.rmtree(wt, ignore_errors=True)
        shutil.rmtree(vd, ignore_errors=True)
        r = sh(f"git -C {REPO} worktree add -q --detach {wt} HEAD")
        if r.returncode != 0:
            res["error"] = "worktree: " + r.stderr.strip()
            return res
        if c["reverse"]:
            r = sh(f"git -C {REPO} show {c['commit']} -- . ':(exclude)jsonschema/contracts_verif.go' | git -C {wt} apply -R")
        else:
            r = sh(f"git -C {wt} apply {c['patch']}")
        if r.returncode != 0:
            res["error"] = "apply: " + r.stderr.strip()[:300]
            return res
        b = sh("go build ./...", cwd=wt)
        if b.returncode != 0:
            res["error"] = "build: " + b.stderr.strip()[:300]
            return res
        os.makedirs(vd)
        for sub in ("spec", "known_findings.json", "bounded"):
            src = f"{VERIF}/{sub}"
            (shutil.copytree if os.path.isdir(src) else shutil.copy)(src, f"{vd}/{sub}")
        os.makedirs(f"{vd}/replays")
        shutil.copytree(f"{VERIF}/replays/recipes", f"{vd}/replays/recipes")
        os.makedirs(f"{vd}/evidence")
        for p in c["props"]:
            t0 = time.time()
            if p == "C20":
                r = sh(f"GOVC_REPO={wt} GOVC_VERIF={vd} python3 {VERIF}/tools/bounded.py C20")
            else:
                r = sh(f"{VERIF}/bin/govc check -repo {wt} -verif {vd} -tier quick {p}")
            lines = [l for l in (r.stdout + r.stderr).split("\n") if re.match(r"VIOLATION|KNOWN-FINDING|check |VACUOUS|ENGINE|NOTE", l)]
            viol = [l for l in lines if l.startswith("VIOLATION")]
            obl = sorted(set(re.findall(r"obligation=(.*?) status=", "\n".join(viol)))) or [l.split(" first=")[-1][:120] for l in viol if " first=" in l]
            confirmed = [l for l in viol if not l.rstrip().endswith("no-failing-input-found")]
            res["runs"].append({"property": p, "exit": r.returncode, "violations": len(viol), "obligations": obl[:8],
                                "replay_confirmed": len(confirmed), "wall_s": round(time.time() - t0, 1),
                                "summary": [l for l in lines if l.startswith("check ")][-1:] })
        res["caught"] = any(x["exit"] == 1 and x["violations"] > 0 for x in res["runs"])
    finally:
        sh(f"git -C {REPO} worktree remove --force {wt}")
        shutil.rmtree(wt, ignore_errors=True)
        shutil.rmtree(vd, ignore_errors=True)
    return res


def main():
    args = sys.argv[1:]
    j = 3
    if args[:1] == ["-j"]:
        j = int(args[1]); args = args[2:]
    cs = [c for c in cases() if not args or c["name"] in args]
    os.makedirs(SCR, exist_ok=True)
    with ThreadPoolExecutor(max_workers=j) as ex:
        results = list(ex.map(run_case, cs))
    shutil.rmtree(SCR, ignore_errors=True)
    sh(f"git -C {REPO} worktree prune")
    os.makedirs(f"{VERIF}/selftest", exist_ok=True)
    old = {}
    pj = f"{VERIF}/selftest/RESULTS.json"
    if os.path.exists(pj) and args:
        old = {r["name"]: r for r in json.load(open(pj))}
    for r in results:
        old[r["name"]] = r
    allr = [old[k] for k in sorted(old)]
    json.dump(allr, open(pj, "w"), indent=1)
    with open(f"{VERIF}/selftest/RESULTS.md", "w") as f:
        f.write("# Must-fail self-test (tools/selftest.py)\n\n| change | kind | check | caught | violations | first obligations | replay confirmed | wall s |\n|---|---|---|---|---|---|---|---|\n")
        for r in allr:
            if "error" in r:
                f.write(f"| {r['name']} | {r['kind']} | - | ERROR {r['error']} | | | | |\n")
                continue
            for x in r["runs"]:
                f.write(f"| {r['name']} | {r['kind']} | {x['property']} | {'yes' if x['exit']==1 and x['violations'] else 'NO'} | {x['violations']} | {'<br>'.join(x['obligations'][:3])} | {x['replay_confirmed']} | {x['wall_s']} |\n")
    bad = [r["name"] for r in results if not r.get("caught")]
    print("cases:", len(results), "not caught / errors:", bad)
    return 1 if bad else 0


if __name__ == "__main__":
    sys.exit(main())
