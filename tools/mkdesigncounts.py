#!/usr/bin/env python3
"""Refreshes the obligation counts in the table of DESIGN.md section 0.4 from /verif/evidence/*.json."""
import json, re
s = open('/verif/DESIGN.md').read()
for i in range(1, 20):
    pid = 'C%02d' % i
    try:
        n = json.load(open(f'/verif/evidence/{pid}.json'))['coverage']['obligations']
    except Exception:
        continue
    txt = f"{n:,}".replace(',', ' ')
    s = re.sub(r'^\| %s \| [0-9 ]+ \|' % pid, '| %s | %s |' % (pid, txt), s, flags=re.M)
open('/verif/DESIGN.md', 'w').write(s)
