#!/bin/sh
# usage: seedconfirm2.sh <prop> [race]  -- confirm a round-2 seeded change in its scratch worktree /tmp/seed3/wt-<prop>
# (i) suite passes with patch, (ii) demo fails with patch, (iii) demo passes without patch
export GOFLAGS=-mod=mod GOPROXY=off GOSUMDB=off GOTOOLCHAIN=local
ID=$1; RACE=""; [ "$2" = "race" ] && RACE="-race"
WT=/tmp/seed3/wt-$ID; OUT=/tmp/seed3/out-$ID
cd $WT || exit 2
git checkout -q -- . ; git clean -fdq
git apply $OUT/patch.diff || { echo "PATCH DOES NOT APPLY"; exit 2; }
echo "== (i) suite with patch"; (go build ./... && go test $RACE -count=1 ./... 2>&1 | tail -3)
cp $OUT/demo_test.go jsonschema/zz_seed_demo_test.go
echo "== (ii) demo with patch (expect FAIL)"; (cd jsonschema && go test $RACE -count=1 -run "TestSeed${ID}c" . 2>&1 | tail -4)
git apply -R $OUT/patch.diff
echo "== (iii) demo without patch (expect ok)"; (cd jsonschema && go test $RACE -count=1 -run "TestSeed${ID}c" . 2>&1 | tail -2)
rm -f jsonschema/zz_seed_demo_test.go
echo "== applies to /repo HEAD?"; (cd /repo && git apply --check $OUT/patch.diff && echo yes)
