#!/bin/sh
# usage: seedconfirm.sh <id> [race]  -- confirm a seeded change in its scratch worktree /tmp/seed/wt-<id>
# (i) suite passes with patch, (ii) demo fails with patch, (iii) demo passes without patch
export GOFLAGS=-mod=mod GOPROXY=off GOSUMDB=off GOTOOLCHAIN=local
ID=$1; RACE=""; [ "$2" = "race" ] && RACE="-race"
WT=/tmp/seed/wt-$ID; OUT=/tmp/seed/out-$ID
cd $WT || exit 2
git diff > /tmp/seed/cur-$ID.diff
if ! cmp -s /tmp/seed/cur-$ID.diff $OUT/patch.diff; then echo "NOTE: worktree diff differs from patch.diff; resetting and applying patch.diff"; git checkout -- . ; git apply $OUT/patch.diff || exit 2; fi
echo "== (i) suite with patch"; (go test -count=1 ./... 2>&1 | tail -3)
cp $OUT/demo_test.go jsonschema/zz_seed_demo_test.go
echo "== (ii) demo with patch (expect FAIL)"; (cd jsonschema && go test $RACE -count=1 -run "TestSeed$ID" . 2>&1 | tail -4)
git apply -R $OUT/patch.diff
echo "== (iii) demo without patch (expect ok)"; (cd jsonschema && go test $RACE -count=1 -run "TestSeed$ID" . 2>&1 | tail -2)
rm -f jsonschema/zz_seed_demo_test.go
git apply $OUT/patch.diff
git status --short
